NOTES = ("Model-based verification with explicit TLA+ specifications: see DESIGN.md. Every check rebuilds the replayer "
         "against /repo's working tree (build tag verif), model-checks the property's models with TLC, lets TLC generate "
         "scenarios, replays them through the real engine and the pinned reference engine, and validates the recorded "
         "traces with TLC against the trace specification. KNOWN_FINDINGS.txt lists recorded and repaired defects.")
NOT_YET = {}
QT = ("TLC -workers 1 evaluates the clauses of spec/QueryTrace.tla (EngEqualsRef, EngEqualsSpec via PromQLRef.tla, calibration) on "
      "every scenario of the recorded trace")
CHECKS = {
 "C02": {
  "text": "Exhaustive small-scope enumeration by TLC of sample layouts x lookback x per-query lookback x offset x @ x step x window (SelectionLaw model-checked on every enumerated scenario); boundary scenarios replayed through the real engine and Prometheus; each result validated by TLC against PromQLRef's denotation and the reference result.",
  "design_ref": "DESIGN.md §6 C02",
  "note": "Trusted: Prometheus v0.40.1 as oracle, the vstore iterator, the Go comparator (1e-9 relative tolerance), the scenario printer; scope bounded by the tier constants in Gen_Selector.tla.",
  "technique": "TLA+ reference semantics (PromQLRef) + TLC scenario generation + replay into engine + TLC trace validation (QueryTrace)",
 },
}
