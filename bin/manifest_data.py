NOTES = ("Model-based verification with explicit TLA+ specifications: see DESIGN.md. Every check rebuilds the replayer "
         "against /repo's working tree (build tag verif), model-checks the property's models with TLC, lets TLC generate "
         "scenarios, replays them through the real engine and the pinned reference engine, and validates the recorded "
         "traces with TLC against the trace specification. KNOWN_FINDINGS.txt lists recorded and repaired defects.")
NOT_YET = {}
QT = ("TLC -workers 1 evaluates the clauses of spec/QueryTrace.tla (EngEqualsRef, EngEqualsSpec via PromQLRef.tla, calibration) on "
      "every scenario of the recorded trace")
def _q(prop, what, ref):
    return {
        "text": what + " Scenarios are replayed through the real engine (fallback disabled) and the pinned Prometheus engine on one instrumented storage; TLC validates every recorded result against PromQLRef's denotation (where the scenario is structural and PromQLRef is calibrated against Prometheus on it) and against the reference result (values up to rounding).",
        "design_ref": ref,
        "note": "Trusted: Prometheus v0.40.1 as oracle, the vstore storage, the Go comparator (1e-9 relative tolerance), the scenario printer/parser round trip; scope bounded by the tier constants of the generator modules; scenarios with topk/bottomk ties are excluded from the reference comparison (order dependent in the reference).",
        "technique": "TLA+ reference semantics (PromQLRef) + TLC scenario generation with model-level laws + replay into engine and Prometheus + TLC trace validation (QueryTrace)",
    }


CHECKS = {
 "C01": _q("C01", "TLC enumerates every well-typed plan W2(W1(leaf)) [op W3(leaf')] over the alphabets of Gen_Compose.tla (ComposeLaw model-checked on all) and a Go generator adds seeded random expression trees over random irregular datasets whose expected outcome TLC computes during validation.", "DESIGN.md §6 C01"),
 "C03": _q("C03", "TLC enumerates sample layouts x value patterns x range x step x offset x @ x window (WindowLaw: sum_over_time over 2^t values is the membership bitmask of the closed window, model-checked on all), range function chosen by seeded hash, tick 1000 ms and 500 ms.", "DESIGN.md §6 C03"),
 "C04": _q("C04", "TLC enumerates label configurations x presence histories x step counts x NaN/Inf members (AggLaw model-checked on all); aggregator, grouping and parameter chosen by seeded hash.", "DESIGN.md §6 C04"),
 "C05": _q("C05", "TLC enumerates label configurations of two metrics x presence histories x step counts (BinLaw model-checked on all); operator, matching, cardinality/include, bool, scalar operands and wrappers chosen by seeded hash; the specification also names the reason for which the reference fails a step.", "DESIGN.md §6 C05"),
 "C06": _q("C06", "TLC enumerates presence histories x value domains x step counts 1..101 x lookbacks (FuncLaw model-checked on all); 40 expression shapes over all native functions, scalars, unary minus and @-pinned parts chosen by seeded hash.", "DESIGN.md §6 C06"),
 "C07": {
  "text": "Design level: Volcano.tla (batch mechanics) model-checked for every topology and step count: one point per grid step, siblings aligned. Implementation level: for the scenarios of all TLC generators and seeded random ones the range query, instant queries at grid points on both sides of every batch boundary and sub-windows are executed on the real engine; TLC validates every observation against SessionTrace.tla (a result at a timestamp is a function of query, timestamp and data only).",
  "design_ref": "DESIGN.md §6 C07",
  "note": "Trusted: the Go comparator's equality classes (1e-9), the projection of a range result at a timestamp; queries with start()/end() excluded as the property states; instants sampled (not all) for windows of more than 12 steps.",
  "technique": "TLA+ session specification (SessionTrace) validated by TLC on recorded histories of range / instant / sub-window executions + TLC model checking of Volcano.tla",
 },
 "C18": {
  "text": "Design level: Volcano.tla model-checked (contract and alignment on every edge). Implementation level: hook H1 wraps every operator of every physical plan (reflection over operator fields, so new operator kinds are covered); plans for the scenarios of all generators run in four modes (passive, Series-first, extra Next after end, seeded yields); TLC validates clauses S1-S8 of StreamTrace.tla on every Series/Next event and the agreement of the modes' results.",
  "design_ref": "DESIGN.md §3.4, §6 C18",
  "note": "Trusted: the recording wrapper (harness/optrace), sequence numbers from one atomic counter; an empty batch is admitted by S3 (nothing delivered); perturbation is seeded yields, not exhaustive scheduling.",
  "technique": "trace validation by TLC of operator-boundary events (hook H1) against StreamTrace.tla + TLC model checking of Volcano.tla",
 },
 "C19": {
  "text": "Every result produced for the scenarios of all generators, the random generator and the dedicated family Gen_WF (1e308 magnitudes, denormals, name-dropping collisions, include labels that exist / sort first, histogram_quantile over two metrics, empty results) is validated by TLC against the well-formedness clauses of QueryTrace.tla.",
  "design_ref": "DESIGN.md §6 C19",
  "note": "Trusted: byte-order ranks of label names/values computed by the harness; raw result order is logged unmodified.",
  "technique": "trace validation by TLC of recorded results against the ResultWF clauses of QueryTrace.tla",
 },
 "C02": {
  "text": "Exhaustive small-scope enumeration by TLC of sample layouts x lookback x per-query lookback x offset x @ x step x window (SelectionLaw model-checked on every enumerated scenario); boundary scenarios replayed through the real engine and Prometheus; each result validated by TLC against PromQLRef's denotation and the reference result.",
  "design_ref": "DESIGN.md §6 C02",
  "note": "Trusted: Prometheus v0.40.1 as oracle, the vstore iterator, the Go comparator (1e-9 relative tolerance), the scenario printer; scope bounded by the tier constants in Gen_Selector.tla.",
  "technique": "TLA+ reference semantics (PromQLRef) + TLC scenario generation + replay into engine + TLC trace validation (QueryTrace)",
 },
}
