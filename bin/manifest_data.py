NOTES = ("Model-based verification with explicit TLA+ specifications: see DESIGN.md. Every check rebuilds the replayer "
         "against /repo's working tree (build tag verif), model-checks the property's models with TLC, lets TLC generate "
         "scenarios, replays them through the real engine and the pinned reference engine, and validates the recorded "
         "traces with TLC against the trace specification. KNOWN_FINDINGS.txt lists recorded and repaired defects.")
NOT_YET = {}
QT = ("TLC -workers 1 evaluates the clauses of spec/QueryTrace.tla (EngEqualsRef, EngEqualsSpec via PromQLRef.tla, calibration) on "
      "every scenario of the recorded trace")
def _q(prop, what, ref):
    return {
        "text": what + " Scenarios are replayed through the real engine (fallback disabled) and the pinned Prometheus engine on one instrumented storage; TLC validates every recorded result against PromQLRef's denotation (where the scenario is structural and PromQLRef is calibrated against Prometheus on it) and against the reference result (values up to rounding).",
        "design_ref": ref,
        "note": "Every fourth plan-based scenario is replayed at a present-day time base (times in traces are relative to it). Trusted: Prometheus v0.40.1 as oracle, the vstore storage, the Go comparator (1e-9 relative tolerance), the scenario printer/parser round trip; scope bounded by the tier constants of the generator modules; scenarios with topk/bottomk ties are excluded from the reference comparison (order dependent in the reference).",
        "technique": "TLA+ reference semantics (PromQLRef) + TLC scenario generation with model-level laws + replay into engine and Prometheus + TLC trace validation (QueryTrace)",
    }


CHECKS = {
 "C01": _q("C01", "TLC enumerates every well-typed plan W2(W1(leaf)) [op W3(leaf')] over the alphabets of Gen_Compose.tla (ComposeLaw model-checked on all) and a Go generator adds seeded random expression trees over random irregular datasets whose expected outcome TLC computes during validation.", "DESIGN.md §6 C01"),
 "C03": _q("C03", "TLC enumerates sample layouts x value patterns x range x step x offset x @ x window (WindowLaw: sum_over_time over 2^t values is the membership bitmask of the closed window, model-checked on all), range function chosen by seeded hash (four functions for the patterns with NaN / Inf / signed zeros), tick 1000 ms and 500 ms (there the samples lie two ticks apart and 23 steps of one tick cross two batch boundaries).", "DESIGN.md §6 C03"),
 "C04": _q("C04", "TLC enumerates label configurations x presence histories x step counts x NaN/Inf members (AggLaw model-checked on all); aggregator, grouping and parameter chosen by seeded hash.", "DESIGN.md §6 C04"),
 "C05": _q("C05", "TLC enumerates label configurations of two metrics x presence histories x step counts (BinLaw model-checked on all); operator, matching, cardinality/include, bool, scalar operands and wrappers chosen by seeded hash; the specification also names the reason for which the reference fails a step.", "DESIGN.md §6 C05"),
 "C06": _q("C06", "TLC enumerates presence histories x value domains x step counts 1..101 x lookbacks (FuncLaw model-checked on all); 40 expression shapes over all native functions, scalars, unary minus and @-pinned parts chosen by seeded hash; Gen_Hist.tla enumerates histogram_quantile over 17 bucket layouts x presence histories x 9 quantiles x operand shapes (HistLaw model-checked; bucketQuantile transcribed in PromQLRef).", "DESIGN.md §6 C06"),
 "C07": {
  "text": "Design level: Volcano.tla (batch mechanics) model-checked for every topology and step count: one point per grid step, siblings aligned. Implementation level: for the scenarios of all TLC generators and seeded random ones the range query, instant queries at grid points on both sides of every batch boundary and sub-windows are executed on the real engine; TLC validates every observation against SessionTrace.tla (a result at a timestamp is a function of query, timestamp and data only).",
  "design_ref": "DESIGN.md §6 C07",
  "note": "Trusted: the Go comparator's equality classes (1e-9), the projection of a range result at a timestamp; queries with start()/end() excluded as the property states; instants sampled (not all) for windows of more than 12 steps.",
  "technique": "TLA+ session specification (SessionTrace) validated by TLC on recorded histories of range / instant / sub-window executions + TLC model checking of Volcano.tla",
 },
 "C18": {
  "text": "Design level: Volcano.tla model-checked (contract and alignment on every edge). Implementation level: hook H1 wraps every operator of every physical plan (reflection over operator fields, so new operator kinds are covered); plans for the scenarios of all generators run in four modes (passive, Series-first, extra Next after end, seeded yields); TLC validates clauses S1-S9 of StreamTrace.tla on every Series/Next event and the agreement of the modes' results.",
  "design_ref": "DESIGN.md §3.4, §6 C18",
  "note": "Trusted: the recording wrapper (harness/optrace), sequence numbers from one atomic counter; an empty batch is admitted by S3 (nothing delivered); perturbation is seeded yields, not exhaustive scheduling.",
  "technique": "trace validation by TLC of operator-boundary events (hook H1) against StreamTrace.tla + TLC model checking of Volcano.tla",
 },
 "C19": {
  "text": "Every result produced for the scenarios of all generators, the random generator and the dedicated family Gen_WF (1e308 magnitudes, denormals, name-dropping collisions, include labels that exist / sort first, histogram_quantile over two metrics, empty results) is validated by TLC against the well-formedness clauses of QueryTrace.tla.",
  "design_ref": "DESIGN.md §6 C19",
  "note": "Trusted: byte-order ranks of label names/values computed by the harness; raw result order is logged unmodified. Gen_WF and a fifth of the other scenarios are also run through the distributed engine.",
  "technique": "trace validation by TLC of recorded results against the ResultWF clauses of QueryTrace.tla",
 },
 "C08": {
  "text": "Fallback.tla (creation outcome = function of expression and fallback switch; per-path counters) model-checked; the complete vocabulary of the pinned parser (emitted at check time) in every type-correct position x instant/range is created with fallback on and off, executed and compared with the reference engine; and the construct each text is built around is created on its own; TLC validates F1-F5 of FallbackTrace.tla (F5: a vector/scalar construct that falls back on its own is never part of a natively evaluated query).",
  "design_ref": "DESIGN.md §6 C08",
  "note": "Trusted: path = dynamic type of the returned query, counter read through Opts.Reg, Prometheus as oracle, comparator.",
  "technique": "TLC-enumerated vocabulary scenarios replayed into the engine + trace validation by TLC (FallbackTrace) + model checking of Fallback.tla",
 },
 "C09": {
  "text": "Optimizer.tla transcribes MergeSelects (heap, subset test, filter derivation, in-engine filter) and PropagateMatchers; TLC checks exhaustively over all ordered selector pairs of the matcher alphabet and the all-label-presence dataset that rewritten selection = original selection; the pairs are replayed in 13 positions (incl. direct operands matched on a subset of the labels) under 8 optimizer sets; TLC validates SessionTrace.tla (result independent of the optimizer set).",
  "design_ref": "DESIGN.md §6 C09",
  "note": "Trusted: comparator classes; the model is a transcription (drift shows as replay disagreement, never as a verdict by itself).",
  "technique": "exhaustive TLC model checking of Optimizer.tla + replay of the enumerated pairs under all optimizer sets + trace validation by TLC (SessionTrace)",
 },
 "C10": {
  "text": "Distribute.tla transcribes the optimizer's bottom-up rewrite over PromQLRef; TLC checks for every assignment of the series to the engines and a 29-plan basket (incl. nests of aggregations) that the rewritten plan denotes the central result; triples replayed through NewDistributedEngine over NewLocalEngine partitions against one engine over the union, plus general/random scenarios under random partitions; TLC validates SessionTrace.tla.",
  "design_ref": "DESIGN.md §6 C10",
  "note": "Trusted: local queryable = union (fragments left local are not misreported); comparator classes. General, random, histogram (Gen_WF) scenarios and - with the fallback enabled on every engine - the constructs the engine does not support (Gen_Fallback) are replayed too.",
  "technique": "exhaustive TLC model checking of Distribute.tla + replay through the distributed engine + trace validation by TLC (SessionTrace)",
 },
 "C11": {
  "text": "Shards.tla (slices partition the series; re-based IDs are an order-preserving bijection) checked exhaustively for n <= 40, N <= 8; scenarios with 0..40 series x 24-query basket (+ general and random ones) executed under GOMAXPROCS 1..16, storage permutations, decoy series, seeded yields in storage callbacks and at the engine's scheduling points, repetitions; TLC validates SessionTrace.tla.",
  "design_ref": "DESIGN.md §6 C11",
  "note": "Trusted: comparator classes absorb summation order; scheduling perturbation is seeded, not exhaustive.",
  "technique": "TLC model checking of Shards.tla + replay under configuration variations + trace validation by TLC (SessionTrace)",
 },
 "C16": {
  "text": "Hints.tla derives the select hints path-based (reference) and top-down (engine) and TLC checks equality and sufficiency for every plan of the alphabet; the plans and general/random scenarios are replayed: recorded select sets of engine (no optimizers) and reference must be equal, and results with the storage pruned to the hinted ranges must equal unpruned results for optimizer sets none/default/all; TLC validates SessionTrace.tla.",
  "design_ref": "DESIGN.md §6 C16",
  "note": "Trusted: the recording storage; grouping labels compared as a set; querier [mint,maxt] not compared; failing queries excluded from the equality half.",
  "technique": "TLC model checking of Hints.tla + replay with recording / pruning storage + trace validation by TLC (SessionTrace)",
 },
 "C20": {
  "text": "TLC simulation of Session.tla produces histories (12/30/50 operations: executions of 28 queries incl. failing, fallback, cancelled, name-dropping over a metric hand-over; half of the 30-operation histories draw from three queries chosen per history; every other history runs on one processor; appends of samples/series/markers/gaps; closes) replayed on one engine and one growing storage; after every operation all earlier results are compared with their deep snapshots and each execution with a fresh engine; TLC validates SessionTrace.tla (memo per data version; ReturnedResultsImmutable).",
  "design_ref": "DESIGN.md §6 C20",
  "note": "Trusted: deep snapshots taken by the harness at return time; random walks, not exhaustive. Windows with and without a per-query lookback; the long-lived engine is a plain engine or a distributed engine over long-lived local engines (compared with a freshly built one of the same kind).",
  "technique": "TLC-simulated histories of Session.tla replayed into one engine instance + trace validation by TLC (SessionTrace)",
 },
 "C12": {
  "text": "Gen_Conc.tla enumerates client mixes (2..32 clients; same text / native basket / native+fallback / distributed / Cancel() racing with Exec / the very same query with every other client cancelling its own; per-client lookback deltas; explicit optimizer lists); the replayer built with the Go race detector runs each query alone and then all clients concurrently on one engine and one storage under seeded yields; TLC validates SessionTrace.tla: every concurrent result equals the solo result (Agree), and every race report with an engine frame is a `race` event that no action accepts (RaceFree).",
  "design_ref": "DESIGN.md §6 C12, §8",
  "note": "Trusted: the Go race detector as the sensor of unsynchronised accesses (only executed accesses are seen); seeded perturbation, not exhaustive interleavings.",
  "technique": "TLC-enumerated concurrency mixes replayed under the race detector + trace validation by TLC (SessionTrace: Agree, RaceFree)",
 },
 "C13": {
  "text": "Fault enumeration bound to ExecTrace.tla: a runtime panic injected at every storage callback index k reached by the fault-free run, on whichever goroutine evaluates it, for plan shapes covering every operator (Gen_Fault.tla), in child processes; TLC validates PanicSurfaces / ExecReturns / no ProcessDead on the recorded life-cycle events. Also: a panic after a cancellation (cancelpanic); the aggregation scenarios with extreme parameters, Optimizer.tla's selector pairs in 17 syntactic positions, a sample of every query family and the vocabulary of Gen_Fallback through the distributed engine are replayed in child processes (planning is part of the property). Crashes found by the other checks' replays are attributed here as ProcessDead.",
  "design_ref": "DESIGN.md §6 C13",
  "note": "Trusted: the child-process supervisor (a dead child identifies its scenario), the instrumented storage.",
  "technique": "fault enumeration (panic at k-th storage callback, also with lagging consumers; extreme parameters) in child processes + trace validation by TLC (ExecTrace, QueryTrace) + TLC model checking of Exec.tla",
  "category": "fault_enumeration",
 },
 "C14": {
  "text": "Fault enumeration bound to ExecTrace.tla: cancellation inside the k-th storage callback for every k, a callback that blocks until cancelled, Query.Cancel() from another goroutine at seeded instants (also on an engine whose active-query tracker has one slot while another query of the engine is blocked), against a context-honouring storage, for plan shapes covering every operator incl. distributed; TLC validates ExecReturns (5 s), CancelFinal (context error or the complete fault-free result) and NoLeak (goroutine census after Close).",
  "design_ref": "DESIGN.md §6 C14",
  "note": "Trusted: goroutine census via runtime.NumGoroutine with 3 s grace; interleavings are those the scheduler produces under the injected faults (not exhaustive).",
  "technique": "fault enumeration (cancel / block at k-th storage callback; Cancel(), Close() and deadlines at seeded instants; cancellation at every pass of every scheduling point, hook H2) + trace validation by TLC (ExecTrace) + TLC model checking of Exec.tla incl. liveness",
  "category": "fault_enumeration",
 },
 "C15": {
  "text": "Fault enumeration bound to ExecTrace.tla: a storage error at every failing-capable callback index k (Querier(), SeriesSet.Err after the k-th Next, iterator Seek/Next with Err) for plan shapes covering every operator incl. distributed; TLC validates ErrorSurfaces (errors.Is(result.Err, injected)).",
  "design_ref": "DESIGN.md §6 C15",
  "note": "Trusted: the instrumented storage. Faults: one failing callback (err), every callback from the k-th on (errdown: all shards fail in one round), and err with lagging consumers (producers meet the fault with full buffers); 1, 2 and 4 shards; Exec.tla is model-checked with up to two faults and a negative control.",
  "technique": "fault enumeration (error at the k-th storage interaction / from the k-th on / with lagging consumers) + trace validation by TLC (ExecTrace) + TLC model checking of Exec.tla",
  "category": "fault_enumeration",
 },
 "C17": {
  "text": "The storage logs querier open/close in real order around create / Exec start / Exec return; for every outcome (normal, error, panic, cancel, block at every k) TLC validates QuerierBeforeExec, QuerierAfterReturn, QuerierClosedOnce and DataUnmodified (the storage hands out the same label slices on every call and compares deep snapshots) of ExecTrace.tla.",
  "design_ref": "DESIGN.md §6 C17",
  "note": "Trusted: the storage's own event log (global sequence numbers).",
  "technique": "fault enumeration over all outcomes + trace validation by TLC of querier life-cycle events (ExecTrace) + TLC model checking of the querier life cycle in Exec.tla (with a negative control)",
  "category": "fault_enumeration",
 },
 "C02": {
  "text": "Exhaustive small-scope enumeration by TLC of sample layouts x lookback x per-query lookback x offset x @ x step x window x context (bare, aggregated, merged with a broader select, argument of timestamp()) (SelectionLaw model-checked on every enumerated scenario); boundary scenarios replayed through the real engine and Prometheus; each result validated by TLC against PromQLRef's denotation and the reference result.",
  "design_ref": "DESIGN.md §6 C02",
  "note": "Trusted: Prometheus v0.40.1 as oracle, the vstore iterator, the Go comparator (1e-9 relative tolerance), the scenario printer; scope bounded by the tier constants in Gen_Selector.tla.",
  "technique": "TLA+ reference semantics (PromQLRef) + TLC scenario generation + replay into engine + TLC trace validation (QueryTrace)",
 },
}
