"""Per-property recipes: which models are checked, which generators run, which family replays
the scenarios, which trace specification validates the traces and which clauses belong to the
property."""
import json, os, re
import vlib
from vlib import Infra, log

WF = {"WFKind", "WFSorted", "WFNonEmpty", "WFTimes", "WFLabels", "WFNoStale"}
RESULT = {"EngEqualsRef", "EngEqualsSpec"}


def gen_cfg(tier, seed, mod, invariants, tickms=1000, extra=""):
    return ("INIT Init\nNEXT Next\nCONSTANTS\n Tier = \"%s\"\n Seed = %d\n Mod = %d\n TickMs = %d\n%s\nINVARIANTS %s\nCHECK_DEADLOCK FALSE\n"
            % (tier, seed, mod, tickms, extra, " ".join(invariants)))


def vacuous(run, msg):
    """A run that observed nothing is an infrastructure error - unless what it did observe are violations of the
    property (e.g. every child process died): those are reported."""
    if not run.viols:
        raise Infra(msg)
    log("NOTE: %s - reporting the violations that were observed" % msg)


def headers_of(trace_files, ids):
    """id -> header event of the scenario, for the violating ids."""
    out = {}
    if not ids:
        return out
    for tf in trace_files:
        if not os.path.exists(tf):
            continue
        with open(tf) as f:
            for line in f:
                if '"ev":"sc"' not in line:
                    continue
                try:
                    e = json.loads(line)
                except Exception:
                    continue
                if e.get("id") in ids:
                    out[e["id"]] = e
    return out


def sample_headers(trace_files, n=3):
    out = []
    for tf in trace_files:
        if not os.path.exists(tf):
            continue
        with open(tf) as f:
            for line in f:
                if '"ev":"sc"' in line:
                    e = json.loads(line)
                    out.append({"id": e["id"], "query": e["q"], "start": e["start"], "end": e["end"], "step": e["step"],
                                "lookback": e["lb"], "per_query_lookback": e["qlb"], "tickms": e["tickms"],
                                "data": e["data"][:3]})
                    break
        if len(out) >= n:
            break
    return out


def attribute(run, viols, headers, clause_props):
    """Turn TLC-reported <<id, clause, detail>> into violations of properties.
    clause_props(clause, fam) -> list of property ids the clause counts for."""
    other = {}
    for v in viols:
        sid, clause, detail = v[0], v[1], v[2]
        h = headers.get(sid, {})
        fam = h.get("fam", "")
        for p in clause_props(clause, fam):
            rec = {"prop": p, "id": sid, "clause": clause, "detail": detail, "query": h.get("q", ""),
                   "scenario": {k: h.get(k) for k in ("q", "start", "end", "step", "lb", "qlb", "tickms", "data", "cfg")}}
            if p == run.prop:
                run.viols.append(rec)
            else:
                other.setdefault(p, 0)
                other[p] += 1
    if other:
        run.notes.append("observations attributed to other properties (reported by their own checks): %s" % other)


def sum_stats(stats):
    tot = {}
    for s in stats:
        for k, v in s.items():
            tot[k] = tot.get(k, 0) + v
    return tot


def query_check(run, gens, own_clauses, rule, assumptions, ops=False, mc=None, rnd=None, every=None):
    """Generic recipe for the families decided by QueryTrace.
    gens: list of (module, name, mod_quick, mod_thorough, cap_quick, cap_thorough, invariants, tickms)"""
    binary = vlib.build()
    quick = run.tier == "quick"
    if mc:
        mc(run)
    scenarios = []
    for (module, name, modq, modt, capq, capt, invs, tickms) in gens:
        mod = modq if quick else modt
        cfg = gen_cfg(run.tier, run.seed, mod, invs, tickms)
        scs = vlib.generate(run, module, cfg, name, fam=run.prop, cap=(capq if quick else capt), timeout=1500)
        log("generated %s: %d scenarios (enumerated %s)" % (name, len(scs), run.cov["gen"][-1].get("enumerated")))
        scenarios += scs
    # the many-series scenarios of Shards.tla (0..40 series of one metric, several per group and per shard)
    sh = vlib.generate(run, "Shards", gen_cfg(run.tier, run.seed, 3 if quick else 1, ["EmitShard"]), "shard", fam=run.prop, cap=(400 if quick else 4000), timeout=900)
    log("generated shard: %d scenarios" % len(sh))
    scenarios += sh
    if every:
        # C01 is about every query: a sample of the scenarios of all the other generators, too
        scenarios += all_scenarios(run, every[0], every[1], only=("sel", "win", "agg", "bin", "fn"))
    if rnd:
        gen, nq, nt = rnd
        rs = vlib.gen_random(run, binary, gen, nq if quick else nt, run.prop)
        log("random scenarios (%s): %d" % (gen, len(rs)))
        scenarios += rs
    if not scenarios:
        raise Infra("no scenarios generated")
    chunks = max(1, min(vlib.NCPU // 2, len(scenarios) // 400))
    traces = vlib.replay(run, binary, "query", scenarios, "q", ops=ops, chunks=chunks)
    viols, stats = vlib.validate(run, "QueryTrace", traces, "q", extra_constants=" WFOnly = FALSE")
    st = sum_stats(stats)
    ids = {v[0] for v in viols}
    hdr = headers_of(traces, ids)

    def cp(clause, fam):
        ps = []
        if clause in RESULT:
            ps.append(fam)
        if clause in WF:
            ps.append("C19")
        if clause == "ProcessDead":
            ps += [fam, "C13"]
        return ps

    attribute(run, viols, hdr, cp)
    run.cov["traces_validated_against_impl"] = st.get("sc", 0)
    run.cov["samples"] = sample_headers(traces)
    run.cov["scenario_stats"] = st
    if st.get("sc", 0) == 0 or st.get("sc", 0) - st.get("skipped", 0) <= 0:
        vacuous(run, "vacuous run: no scenario was executed natively")
    return vlib.finish(run, "model_checking", rule, assumptions,
                       distinct_nontrivial=st.get("calibrated", 0), exhaustive=False)


# --------------------------------------------------------------------------------------
def c02(run):
    gens = [("Gen_Selector", "sel", 16, 24, 6000, 25000, ["SelectionLaw", "EmitSel"], 1000),
            # tick 500 ms: samples two ticks apart, 23 steps of one tick (finer than the sample spacing, three batches of steps)
            ("Gen_Selector", "sel500", 48, 64, 2500, 10000, ["SelectionLaw", "EmitSel"], 500)]
    return query_check(
        run, gens, RESULT,
        rule=("TLC enumerates every sample layout x lookback x per-query lookback x offset x @ x step x window of the "
              "tier's scope (SelectionLaw checked on all), emits boundary scenarios of the seeded residue class; each "
              "is replayed through the engine and Prometheus and validated by QueryTrace. distinct_nontrivial = "
              "scenarios that are structural (no OPAQUE presence) and on which PromQLRef agreed with Prometheus "
              "(calibrated), i.e. where the TLA+ denotation itself decided the engine's result."),
        assumptions=["Prometheus v0.40.1 from the module cache is the reference", "vstore iterator implements chunkenc.Iterator faithfully",
                     "Go comparator tolerance 1e-9 relative"])


def c03(run):
    gens = [("Gen_Window", "win", 8, 16, 9000, 30000, ["WindowLaw", "EmitWin"], 1000),
            ("Gen_Window", "win500", 6, 16, 1500, 6000, ["EmitWin"], 500)]
    return query_check(
        run, gens, RESULT,
        rule=("TLC enumerates every sample layout (floats / staleness markers, two value patterns) x range x step x offset x @ x "
              "window start x step count (12 and 23 cross the engine's batch of 10); WindowLaw (sum_over_time over 2^t values is the "
              "membership bitmask of the closed window) is model-checked on every scenario; boundary scenarios of the seeded residue "
              "class are replayed with a range function chosen by hash and validated by QueryTrace. distinct_nontrivial = structural "
              "scenarios on which PromQLRef agreed with Prometheus."),
        assumptions=["Prometheus v0.40.1 is the reference", "values of rate-like kernels are OPAQUE in the spec and compared with the reference by the Go comparator (1e-9)"])


def c04(run):
    gens = [("Gen_Agg", "agg", 1, 1, 6000, 30000, ["AggLaw", "EmitAgg"], 1000)]
    return query_check(
        run, gens, RESULT,
        rule=("TLC enumerates 3 label configurations (labels absent on some series, two metrics with equal label sets, an upper-case "
              "label) x every presence history of series 1 over a 4-tick period x pattern lists for the others x 4/12/23 steps x "
              "NaN/Inf members; AggLaw (groups partition the input; outputs distinct; metric name dropped) is model-checked for every "
              "grouping on every scenario; aggregator, grouping and parameter are chosen per scenario by the seeded hash. "
              "distinct_nontrivial = structural scenarios on which PromQLRef agreed with Prometheus."),
        assumptions=["Prometheus v0.40.1 is the reference", "avg/stddev/stdvar/quantile values are OPAQUE in the spec and compared with the reference by the Go comparator"])


def c05(run):
    gens = [("Gen_Bin", "bin", 1, 1, 6000, 30000, ["BinLaw", "EmitBin"], 1000)]
    return query_check(
        run, gens, RESULT,
        rule=("TLC enumerates 5 label configurations of two metrics (one-to-one, absent labels, many-to-one, duplicated one-side, "
              "include label already present) x every presence history of the first lhs series over a 4-tick period x pattern lists "
              "for the other series x 4/12/23 steps; BinLaw (outputs = matched pairs, error iff the one-side is ambiguous at that step) "
              "is model-checked on every scenario; operator (13), matching labels, cardinality+include, bool, scalar operands and "
              "operand wrappers are chosen by the seeded hash. distinct_nontrivial = structural scenarios on which PromQLRef agreed with "
              "Prometheus."),
        assumptions=["Prometheus v0.40.1 is the reference", "errors are compared by presence only"])


def c06(run):
    gens = [("Gen_Func", "fn", 1, 1, 4000, 20000, ["FuncLaw", "EmitFn"], 1000),
            ("Gen_Func", "fn500", 3, 1, 1000, 6000, ["EmitFn"], 500),
            # histogram_quantile: the case analysis of the reference's bucketQuantile, transcribed in PromQLRef
            ("Gen_Hist", "hist", 128, 16, 1000, 6000, ["HistLaw", "EmitHq"], 1000)]
    return query_check(
        run, gens, RESULT,
        rule=("TLC enumerates every presence history of m{a=x} over a 4-tick period x patterns of the second series x value domains "
              "(negative, zero, NaN, +/-Inf) x step counts 1 (instant), 4, 12, 23 (35, 101 in the thorough tier) x lookbacks; FuncLaw "
              "(a scalar-typed expression has exactly one value per step, scalar(v) is NaN unless v has one element, a pinned selector "
              "denotes one vector for all steps) is model-checked on every scenario; the expression shape (40 shapes over all native "
              "functions, clamp* with literal / per-step / sometimes-absent scalars, timestamp, scalar, vector, unary minus, pinned "
              "parts, top-level scalars) is chosen by the seeded hash. Gen_Hist.tla enumerates histogram_quantile over 17 bucket layouts "
              "(the case analysis of the reference's bucketQuantile, transcribed in PromQLRef: non-monotonic and NaN counts, no +Inf "
              "bucket, one / two buckets, bounds given twice, unparsable and non-positive bounds, no observations) x every presence "
              "history of a bucket x 9 quantiles (incl. NaN, out of range, per-step scalar) x operand shapes x 1/4/14 steps; HistLaw is "
              "model-checked on every one. distinct_nontrivial = structural scenarios on which PromQLRef agreed with Prometheus."),
        assumptions=["Prometheus v0.40.1 is the reference", "values of transcendental functions are OPAQUE in the spec and compared with the reference by the Go comparator"])


def c01(run):
    gens = [("Gen_Compose", "cmp", 8, 8, 6000, 20000, ["ComposeLaw", "EmitCmp"], 1000),
            ("Gen_WF", "wf", 1, 1, 1000, 1000, ["EmitWF"], 1000)]
    return query_check(
        run, gens, RESULT,
        rule=("TLC enumerates every well-typed plan W2(W1(leaf)) [op W3(leaf')] over 12 leaves (selectors with regex/negative matchers, "
              "offset, @, range functions, literals, time(), scalar(p), vector(1)), 19 wrappers (functions, unary minus, both aggregation "
              "kinds incl. grouped topk/bottomk/quantile, scalar arithmetic/comparison with and without bool, clamp_min, timestamp, "
              "scalar()) and 6 binary combinations, over a dataset with gaps, staleness markers, NaN, an absent and an upper-case label, "
              "for instant and 12/23-step windows; ComposeLaw is model-checked on every plan; the seeded residue class is replayed and "
              "validated by QueryTrace. In addition seeded random scenarios (random expression trees of depth <= 4 over random irregular "
              "datasets, windows of 1..35 steps with steps of 1..5 ticks, tick 0.5/1/15 s, per-query lookbacks) are replayed; their "
              "expected outcome is computed by TLC from PromQLRef during trace validation. distinct_nontrivial = structural scenarios on which PromQLRef agreed with Prometheus."),
        assumptions=["Prometheus v0.40.1 is the reference", "OPAQUE values are compared with the reference by the Go comparator (1e-9)"],
        rnd=("compose", 2000, 12000), every=(250, 1500))


ALL_GENS = [("Gen_Selector", "sel", 16, 24, ["EmitSel"], 1000), ("Gen_Window", "win", 8, 16, ["EmitWin"], 1000),
            ("Gen_Agg", "agg", 1, 1, ["EmitAgg"], 1000), ("Gen_Bin", "bin", 1, 1, ["EmitBin"], 1000),
            ("Gen_Func", "fn", 1, 1, ["EmitFn"], 1000), ("Gen_Compose", "cmp", 8, 8, ["EmitCmp"], 1000),
            # many series (0..40 of one metric, several per group and per shard) under a basket of 34 queries
            ("Shards", "shard", 2, 1, ["EmitShard"], 1000),
            # degenerate / colliding / extreme inputs (holes, hand-overs between metrics, histograms, 1e308, denormals)
            ("Gen_WF", "wf", 1, 1, ["EmitWF"], 1000),
            # histogram_quantile over malformed, NaN-holding, non-monotonic and colliding histograms
            ("Gen_Hist", "hist", 128, 16, ["EmitHq"], 1000)]


def all_scenarios(run, cap_quick, cap_thorough, only=None):
    """Scenarios of the query families (emission only; their laws are checked by their own properties)."""
    quick = run.tier == "quick"
    out = []
    for (module, name, modq, modt, invs, tickms) in ALL_GENS:
        if only and name not in only:
            continue
        cfg = gen_cfg(run.tier if name != "cmp" else "quick", run.seed, modq if quick else modt, invs, tickms)
        scs = vlib.generate(run, module, cfg, name, fam=run.prop, cap=(cap_quick if quick else cap_thorough), timeout=1500)
        log("generated %s: %d scenarios" % (name, len(scs)))
        out += scs
    return out


def session_validate(run, traces, clause_map, name="s"):
    viols, stats = vlib.validate(run, "SessionTrace", traces, name)
    st = sum_stats(stats)
    ids = {v[0] for v in viols}
    hdr = headers_of(traces, ids)
    attribute(run, viols, hdr, clause_map)
    run.cov["traces_validated_against_impl"] = st.get("sc", 0)
    run.cov["samples"] = sample_headers(traces)
    run.cov["session_stats"] = st
    return st


def mc_volcano(run):
    cfg = "SPECIFICATION Spec\nCONSTANTS\n B = 3\n MaxN = %d\nINVARIANTS Contract ResultComplete BoundedRounds\nPROPERTIES Terminates\n" % (11 if run.tier == "quick" else 14)
    ok, out, st = vlib.model_check(run, "Volcano", cfg, "volcano", timeout=600)
    if not ok:
        raise Infra("Volcano.tla violates its own properties (model error):\n" + out[-2000:])
    log("Volcano model: %d distinct states" % st["distinct"])


def c19(run):
    binary = vlib.build()
    quick = run.tier == "quick"
    scs = vlib.generate(run, "Gen_WF", gen_cfg(run.tier, run.seed, 1, ["EmitWF"]), "wf", fam="C19")
    scs += all_scenarios(run, 1200, 5000)
    scs += vlib.gen_random(run, binary, "compose", 2500 if quick else 10000, "C19")
    chunks = max(1, min(vlib.NCPU // 2, len(scs) // 400))
    traces = vlib.replay(run, binary, "query", scs, "q", chunks=chunks)
    # the same through the distributed engine (another planner path: its results must be as well formed):
    # Gen_WF's scenarios and every fifth of the others
    dscs = [dict(s, id=s["id"] + "-dist") for i, s in enumerate(scs) if "-wf-" in s["id"] or i % 5 == 0]
    traces += vlib.replay(run, binary, "querydist", dscs, "qd", chunks=max(1, min(vlib.NCPU // 2, len(dscs) // 400)))
    viols, stats = vlib.validate(run, "QueryTrace", traces, "q", extra_constants=" WFOnly = TRUE")
    st = sum_stats(stats)
    hdr = headers_of(traces, {v[0] for v in viols})
    attribute(run, viols, hdr, lambda clause, fam: ["C19"] if clause in WF else (["C01-C06"] if clause in RESULT else (["C19", "C13"] if clause == "ProcessDead" else [])))
    run.cov["traces_validated_against_impl"] = st.get("sc", 0)
    run.cov["samples"] = sample_headers(traces)
    run.cov["scenario_stats"] = st
    executed = st.get("sc", 0) - st.get("skipped", 0)
    if executed <= 0:
        vacuous(run, "vacuous run")
    return vlib.finish(run, "model_checking",
                       rule=("Every result produced - by the plain engine, and for Gen_WF and a fifth of the rest also by the distributed engine - for the scenarios of all query generators (TLC), of the random generator and of the dedicated "
                             "family Gen_WF.tla (magnitudes of 1e308 overflowing to Inf, denormals, selectors whose name-dropping makes series "
                             "collide, group_left labels that already exist or sort first, empty results) is validated by TLC against the "
                             "well-formedness clauses of QueryTrace.tla (WFKind, WFSorted incl. pairwise distinct label sets, WFNonEmpty, "
                             "WFTimes strictly increasing on the grid, WFLabels sorted by name without empty or repeated names, WFNoStale). "
                             "distinct_nontrivial = scenarios executed natively whose result was checked."),
                       assumptions=["label order is checked on byte-order ranks computed by the harness (one line of Go)"],
                       distinct_nontrivial=executed)


STREAM = {"S1", "S2", "S3", "S4", "S5", "S6", "S7", "S8", "S9"}


def c18(run):
    binary = vlib.build()
    mc_volcano(run)
    quick = run.tier == "quick"
    scs = all_scenarios(run, 150, 1500)
    scs += vlib.generate(run, "Gen_WF", gen_cfg(run.tier, run.seed, 1, ["EmitWF"]), "wf", fam="C18")
    scs += vlib.gen_random(run, binary, "compose", 300 if quick else 2500, "C18")
    chunks = max(1, min(vlib.NCPU // 2, len(scs) // 100))
    traces = vlib.replay(run, binary, "stream", scs, "st", chunks=chunks)
    viols, stats = vlib.validate(run, "StreamTrace", traces, "st", extra_constants=" B = 10")
    st = sum_stats(stats)
    hdr = headers_of(traces, {v[0] for v in viols})
    attribute(run, viols, hdr, lambda clause, fam: ["C18"] if clause in STREAM else [])
    # the results of the four modes must agree (S1: list requested first or not)
    sst = session_validate(run, traces, lambda clause, fam: ["C18"] if clause == "Agree" else ([run.prop, "C13"] if clause == "ProcessDead" else []), name="ss")
    run.cov["stream_stats"] = st
    run.cov["traces_validated_against_impl"] = st.get("plans", 0)
    if st.get("nexts", 0) == 0 or st.get("ops", 0) == 0:
        vacuous(run, "vacuous run: no operator event recorded (hook H1 not active?)")
    return vlib.finish(run, "model_checking",
                       rule=("Volcano.tla model-checked (stream contract and alignment on every edge of every topology). Every operator of "
                             "every physical plan built for the scenarios of all query generators (TLC), Gen_WF and random ones is wrapped at "
                             "the exported operator interface (hook H1, reflection over all operator fields) and executed in four modes "
                             "(passive, Series() first on every operator, one extra Next() after every end, seeded yields/sleeps at every "
                             "call); TLC validates clauses S1-S9 of StreamTrace.tla on every Series/Next event and SessionTrace.tla checks "
                             "that the four modes return the same result. distinct_nontrivial = operator instances observed."),
                       assumptions=["event order = global atomic sequence numbers taken at call entry and return", "batch size B = 10 (stepsBatch)"],
                       distinct_nontrivial=st.get("ops", 0))


def c09(run):
    binary = vlib.build()
    quick = run.tier == "quick"
    # exhaustive model check of the rewrite rules + emission of the pairs on which a rewrite fires
    cfg = gen_cfg(run.tier, run.seed, 24 if quick else 40, ["MergeSound", "MergeWidens", "PropagateSound", "EmitOpt"])
    scs = vlib.generate(run, "Optimizer", cfg, "opt", fam="C09", cap=(5000 if quick else 20000), timeout=3000)
    log("Optimizer.tla: %s pairs model-checked, %d scenarios emitted" % (run.cov["gen"][-1].get("enumerated"), len(scs)))
    # the general query families and random expressions, too (offsets / @ on the selectors, larger expressions)
    scs += all_scenarios(run, 150, 3000, only=("bin", "cmp", "fn"))
    scs += vlib.gen_random(run, binary, "compose", 600 if quick else 4000, "C09")
    chunks = max(1, min(vlib.NCPU // 2, len(scs) // 300))
    traces = vlib.replay(run, binary, "optim", scs, "op", chunks=chunks)
    st = session_validate(run, traces, lambda clause, fam: ["C09"] if clause == "Agree" else ([run.prop, "C13"] if clause == "ProcessDead" else []))
    if st.get("obs", 0) == 0:
        vacuous(run, "vacuous run")
    return vlib.finish(run, "model_checking",
                       rule=("Optimizer.tla (MergeSelects heap / subset test / filter derivation / in-engine filter, PropagateMatchers union) is "
                             "model-checked exhaustively over every ordered pair of selectors built from <= 2 matchers of the tier's alphabet "
                             "(2 keys x {=, !=, =~, !~} x values incl. \"\" and regexes accepting \"\", repeated keys) on the dataset with every "
                             "label-presence combination: rewritten selection = original selection, joined pairs unchanged. The pairs on which a "
                             "rewrite fires (seeded residue class) are emitted in 10 syntactic positions and replayed under 8 optimizer sets "
                             "(none, each alone, default, all, both orders of merge/propagate), together with general and random expressions; "
                             "SessionTrace.tla (result independent of the optimizer set) is validated by TLC. distinct_nontrivial = scenarios x "
                             "optimizer sets beyond the first."),
                       assumptions=["the Go comparator's classes (1e-9)", "errors are compared by presence"],
                       distinct_nontrivial=st.get("obs", 0) - st.get("keys", 0))


def c16(run):
    binary = vlib.build()
    quick = run.tier == "quick"
    cfg = gen_cfg(run.tier, run.seed, 3 if quick else 1, ["HintsEqual", "HintsSufficient", "EmitHint"])
    scs = vlib.generate(run, "Hints", cfg, "hint", fam="C16", cap=(3000 if quick else 12000), timeout=3000)
    log("Hints.tla: %s plans model-checked, %d scenarios emitted" % (run.cov["gen"][-1].get("enumerated"), len(scs)))
    scs += all_scenarios(run, 200, 2000)
    scs += vlib.gen_random(run, binary, "compose", 800 if quick else 4000, "C16")
    chunks = max(1, min(vlib.NCPU // 2, len(scs) // 300))
    traces = vlib.replay(run, binary, "hints", scs, "h", chunks=chunks)
    st = session_validate(run, traces, lambda clause, fam: ["C16"] if clause == "Agree" else ([run.prop, "C13"] if clause == "ProcessDead" else []))
    if st.get("obs", 0) == 0:
        vacuous(run, "vacuous run")
    return vlib.finish(run, "model_checking",
                       rule=("Hints.tla derives the select hints twice - path based as the reference engine does, and top-down as the engine's "
                             "plan construction does - and TLC checks for every plan wrap3(wrap2(wrap1(leaf))) over 9 leaves (offset, @ literal, "
                             "start(), end(), range selectors) and 14 wrappers (function, the same series again over a narrower range, histogram_quantile, timestamp, clamp, aggregation by/without, unary minus, parentheses, "
                             "either side of a binary operator, parameterised aggregation, function with scalar argument) that the tuples are "
                             "equal and the hinted range covers every needed sample. The plans (and the general / random scenarios) are "
                             "replayed: the set of selects recorded by the instrumented storage for the engine without optimizers must equal "
                             "the reference engine's, and for the optimizer sets none/default/all the result with the storage pruned to the "
                             "hinted ranges must equal the unpruned result (SessionTrace.tla validated by TLC). distinct_nontrivial = scenarios "
                             "x (engine/reference + pruned/unpruned) observations beyond the first per key."),
                       assumptions=["the querier's own [mint, maxt] is not part of the comparison (the reference opens one querier per query)",
                                    "sets of selects, not multisets (the engine de-duplicates identical selects)"],
                       distinct_nontrivial=st.get("obs", 0) - st.get("keys", 0))


def c10(run):
    binary = vlib.build()
    quick = run.tier == "quick"
    cfg = gen_cfg(run.tier, run.seed, 1 if quick else 3, ["DistSound", "EmitDist"])
    scs = vlib.generate(run, "Distribute", cfg, "dist", fam="C10", cap=(1500 if quick else 6000), timeout=3000)
    log("Distribute.tla: %s (plan, assignment, window) triples model-checked, %d emitted" % (run.cov["gen"][-1].get("enumerated"), len(scs)))
    scs += all_scenarios(run, 200, 3000, only=("sel", "win", "agg", "fn"))
    # histograms (whose buckets get spread over the engines), name collisions, extreme magnitudes
    scs += vlib.generate(run, "Gen_WF", gen_cfg(run.tier, run.seed, 1, ["EmitWF"]), "wf", fam="C10")
    scs += vlib.gen_random(run, binary, "compose", 600 if quick else 4000, "C10")
    # constructs the engine does not support (fallback enabled everywhere), in every syntactic position
    write_vocab(run, binary)
    fb = vlib.generate(run, "Gen_Fallback", gen_cfg(run.tier, run.seed, 4 if quick else 1, ["EmitFb"]), "fb", fam="C10", timeout=1500)
    for s in fb:
        s.setdefault("cfg", {})["fallback"] = 1
    log("Gen_Fallback.tla: %d query texts with the fallback enabled" % len(fb))
    scs += fb
    chunks = max(1, min(vlib.NCPU // 2, len(scs) // 200))
    traces = vlib.replay(run, binary, "dist", scs, "d", chunks=chunks)
    st = session_validate(run, traces, lambda clause, fam: ["C10"] if clause == "Agree" else ([run.prop, "C13"] if clause == "ProcessDead" else []))
    if st.get("obs", 0) == 0:
        vacuous(run, "vacuous run")
    return vlib.finish(run, "model_checking",
                       rule=("Distribute.tla transcribes the optimizer's bottom-up traversal (innermost distributive aggregation pushed down with "
                             "count->sum, other distributive chains wrapped in coalesce(remote), binary expressions and non-distributive "
                             "aggregations central) over PromQLRef and TLC checks, for every assignment of the series (one ending early, one going "
                             "stale, one with a gap, one starting late) to the engines incl. empty engines and groups split across engines, and "
                             "every plan of a 29-plan basket (incl. nests of equal and different aggregations), that the rewritten plan denotes the central result at every step. The triples are "
                             "replayed through NewDistributedEngine over NewLocalEngine partitions (local queryable = union) against one engine "
                             "over the union, with general and random scenarios under seeded random assignments to 1..4 engines; SessionTrace.tla "
                             "(result independent of the partitioning) is validated by TLC. distinct_nontrivial = distributed executions compared."),
                       assumptions=["the distributed engine's local queryable holds the union (as in the repository's own test), so fragments the rewrite leaves local are not misreported",
                                    "comparator classes (1e-9)"],
                       distinct_nontrivial=st.get("obs", 0) - st.get("keys", 0))


def write_vocab(run, binary):
    """Vocab.tla: the PromQL vocabulary of the pinned parser, generated at check time."""
    import subprocess
    p = subprocess.run([binary, "vocab"], capture_output=True, text=True, env=vlib.GOENV)
    if p.returncode != 0:
        raise Infra("vreplay vocab failed: " + p.stderr)
    v = json.loads(p.stdout)

    def seq(xs):
        return "<<" + ", ".join(xs) + ">>"
    fns = []
    for f in v["functions"]:
        args = list(f["args"] or [])
        fns.append('[name |-> "%s", args |-> %s, variadic |-> %d, ret |-> "%s"]' % (f["name"], seq('"%s"' % a for a in args), f["variadic"], f["ret"]))
    txt = ("---- MODULE Vocab ----\nEXTENDS Integers\nFunctions == %s\nAggregators == %s\nOperators == %s\n====\n"
           % (seq(fns), seq('"%s"' % a for a in v["aggregators"]), seq('"%s"' % o for o in v["operators"])))
    with open(run.path("Vocab.tla"), "w") as f:
        f.write(txt)
    return v


def mc_fallback(run):
    cfg = ("SPECIFICATION Spec\nCONSTANTS\n Queries = {\"q1\", \"q2\", \"q3\", \"q4\"}\n Valid <- MCValid\n Native <- MCNative\nINVARIANTS F1 F2 F3 F4\n")
    with open(run.path("MCFallback.tla"), "w") as f:
        f.write('---- MODULE MCFallback ----\nEXTENDS Fallback\nMCValid == [q \\in Queries |-> q # "q4"]\nMCNative == [q \\in Queries |-> q \\in {"q1", "q4"}]\n====\n')
    ok, out, st = vlib.model_check(run, "MCFallback", cfg, "fallback", timeout=600)
    if not ok:
        raise Infra("Fallback.tla violates its own clauses:\n" + out[-2000:])


def c08(run):
    binary = vlib.build()
    quick = run.tier == "quick"
    v = write_vocab(run, binary)
    mc_fallback(run)
    scs = vlib.generate(run, "Gen_Fallback", gen_cfg(run.tier, run.seed, 1, ["EmitFb"]), "fb", fam="C08", timeout=1500)
    log("vocabulary: %d functions, %d aggregators, %d operators; %d query texts" % (len(v["functions"]), len(v["aggregators"]), len(v["operators"]), len(scs)))
    chunks = max(1, min(vlib.NCPU // 2, len(scs) // 200))
    traces = vlib.replay(run, binary, "fallback", scs, "fb", chunks=chunks)
    viols, stats = vlib.validate(run, "FallbackTrace", traces, "fb")
    st = sum_stats(stats)
    hdr = headers_of(traces, {x[0] for x in viols})
    attribute(run, viols, hdr, lambda clause, fam: ["C08"] if clause in ("F1", "F2", "F3", "F4", "F5") else (["C13", "C08"] if clause == "ProcessDead" else []))
    run.cov["traces_validated_against_impl"] = st.get("sc", 0)
    run.cov["samples"] = [{"query": s.get("q")} for s in scs[:5]]
    run.cov["fallback_stats"] = st
    if st.get("native", 0) == 0 or st.get("fallback", 0) == 0 or st.get("rejected", 0) == 0:
        vacuous(run, "vacuous run: a path was never taken: %s" % st)
    return vlib.finish(run, "model_checking",
                       rule=("Fallback.tla (creation outcome as a function of the expression and the fallback switch; counters) model-checked. "
                             "Gen_Fallback.tla enumerates the complete vocabulary emitted from the pinned parser at check time (every function of "
                             "parser.Functions with type-correct arguments, every aggregation operator, every binary/set operator with "
                             "modifiers, subqueries, string literals, range vectors, @/offset) in the tier's syntactic positions x instant/range; "
                             "every text is created with fallback on and off, executed, and compared with the reference engine, and the construct "
                             "it is built around is created on its own; TLC validates clauses F1-F5 of FallbackTrace.tla (F5: a vector or scalar "
                             "construct that falls back on its own is never part of a natively evaluated query). distinct_nontrivial = valid query texts."),
                       assumptions=["path taken = dynamic type of the returned query object", "counter read from Opts.Reg"],
                       distinct_nontrivial=st.get("valid", 0))


def c11(run):
    binary = vlib.build()
    quick = run.tier == "quick"
    cfg = gen_cfg(run.tier, run.seed, 2 if quick else 1, ["Partition", "IdBijection", "EmitShard"])
    scs = vlib.generate(run, "Shards", cfg, "shard", fam="C11", cap=(400 if quick else 2000), timeout=1500)
    log("Shards.tla: %s (n, N, query, window) states model-checked, %d scenarios" % (run.cov["gen"][-1].get("enumerated"), len(scs)))
    scs += all_scenarios(run, 60, 1500)
    scs += vlib.gen_random(run, binary, "compose", 200 if quick else 2000, "C11")
    chunks = max(1, min(vlib.NCPU // 2, len(scs) // 60))
    # in-process GOMAXPROCS changes: children run sequentially inside, several children in parallel
    traces = vlib.replay(run, binary, "config", scs, "cf", chunks=chunks, j=max(1, vlib.NCPU // 4))
    st = session_validate(run, traces, lambda clause, fam: ["C11"] if clause == "Agree" else ([run.prop, "C13"] if clause == "ProcessDead" else []))
    if st.get("obs", 0) == 0:
        vacuous(run, "vacuous run")
    return vlib.finish(run, "model_checking",
                       rule=("Shards.tla: for all n <= 40 series and N <= 8 shards the shard slices partition the series and the re-based IDs are "
                             "an order-preserving bijection (TLC, exhaustive). Scenarios with 0..40 series (every remainder of n mod shards) over a "
                             "34-query basket covering every operator kind, plus general and random scenarios, are executed under GOMAXPROCS "
                             "1,2,3,4,5,6,8,12,16, seeded permutations of the storage's series order, decoy series, seeded yields/sleeps in storage "
                             "callbacks and at the engine's scheduling points (hook H2), and repetitions; SessionTrace.tla (result independent of "
                             "all of these) is validated by TLC. distinct_nontrivial = executions compared with the first of their scenario."),
                       assumptions=["scheduling perturbation is seeded yields, not exhaustive", "comparator classes (1e-9) absorb summation order"],
                       distinct_nontrivial=st.get("obs", 0) - st.get("keys", 0))


def c20(run):
    binary = vlib.build()
    quick = run.tier == "quick"
    scs = []
    # long histories by simulation (the machine is Session.tla)
    # (s30 / s50: histories whose queries are drawn from three queries of the basket, chosen per history)
    for (ops, num, depth, name, subsize) in ([(12, 60, 14, "h12", 0), (30, 80, 32, "h30", 0), (50, 40, 52, "h50", 0), (30, 240, 32, "s30", 3)] if quick
                                            else [(12, 600, 14, "h12", 0), (30, 1200, 32, "h30", 0), (50, 800, 52, "h50", 0), (30, 1500, 32, "s30", 3), (50, 500, 52, "s50", 3)]):
        cfg = ("SPECIFICATION Spec\nCONSTANTS\n Tier = \"%s\"\n Seed = %d\n Mod = 1\n TickMs = 1000\n MaxOps = %d\n SubSize = %d\nINVARIANTS EmitHist\nCHECK_DEADLOCK FALSE\n" % (run.tier, run.seed, ops, subsize))
        got = vlib.generate(run, "Session", cfg, name, fam="C20", workers=1, timeout=1500, cap=num,
                            simulate="num=%d" % num, depth=depth)
        scs += got
        log("Session.tla -simulate: %d histories of %d operations%s" % (len(got), ops, " over 3 queries each" if subsize else ""))
    chunks = max(1, min(vlib.NCPU // 2, len(scs) // 20))
    traces = vlib.replay(run, binary, "session", scs, "se", chunks=chunks)
    st = session_validate(run, traces, lambda clause, fam: ["C20"] if clause in ("Agree", "ReturnedResultsImmutable") else ([run.prop, "C13"] if clause == "ProcessDead" else []))
    run.cov["samples"] = [{"history": s["cfg"]["hist"][:12]} for s in scs[:2]]
    if st.get("obs", 0) == 0 or st.get("snaps", 0) == 0:
        vacuous(run, "vacuous run")
    return vlib.finish(run, "model_checking",
                       rule=("TLC -simulate walks Session.tla (operations: execute one of 28 queries - native, failing with many-to-many, falling "
                             "back, subquery - over 3 windows, plainly or with the context cancelled before/during execution; append samples, a "
                             "new series, a staleness marker, a gap; close an earlier query) to histories of 12, 30 and 50 operations. Each is "
                             "replayed on ONE engine and one growing storage: after every operation every earlier result is compared with its "
                             "deep snapshot and every execution with that of a freshly constructed engine on the current data; SessionTrace.tla "
                             "(memo single-valued per data version; ReturnedResultsImmutable) is validated by TLC. distinct_nontrivial = result "
                             "re-checks + comparisons with a fresh engine."),
                       assumptions=["random walks (TLC simulation mode), not exhaustive", "comparator classes (1e-9)"],
                       distinct_nontrivial=st.get("snaps", 0) + st.get("obs", 0) - st.get("keys", 0))


FAULT_CLAUSES = {
    "C13": {"PanicSurfaces", "ProcessDead", "ExecReturns", "OthersUnaffected"},
    "C14": {"CancelFinal", "ExecReturns", "NoLeak", "ProcessHung"},
    "C15": {"ErrorSurfaces"},
    "C17": {"QuerierBeforeExec", "QuerierAfterReturn", "QuerierClosedOnce", "DataUnmodified"},
}
FAULT_MODES = {"C13": ["panic", "panic+lag", "cancelpanic"], "C14": ["cancel", "block", "blockq", "cancelcall", "gate", "blockq+busy", "cancelcall+busy"], "C15": ["err", "errwrap", "errdown", "err+lag"], "C17": ["err", "errdown", "panic", "cancel", "block"]}


def mc_exec(run):
    """Exec.tla: goroutines / channels / context of the exchange topology; with the repaired Exec (Recheck) every
    property must hold, and the pinned behaviour (no re-check) must violate NoPartialSuccess (non-vacuity)."""
    quick = run.tier == "quick"
    base = ("SPECIFICATION Spec\nCONSTANTS\n S = %d\n K = %d\n Cap = 2\n Recheck = %s\n Faults = 2\n RecvSelectsCtx = %s\n JoinChecksEndFirst = %s\n"
            "INVARIANTS TypeOK NoPartialSuccess SuccessIsComplete ErrorSurfaces QuerierClosedAtReturn QuerierBalanced FailedLoadNeverSucceeds\n"
            "PROPERTIES ExecReturns GoroutinesExit\n")
    ok, out, st = vlib.model_check(run, "Exec", base % (2, 2 if quick else 3, "TRUE", "FALSE", "FALSE"), "exec", timeout=1500)
    if not ok:
        # a model-level counterexample is not a verdict: it has to be reproduced on the real code (gate mode)
        run.notes.append("Exec.tla reports a counterexample on the model of the current code: " + vlib.tlc_errors(out)[:400])
        log("NOTE: Exec.tla violated at the model level (not a verdict by itself)")
    # non-vacuity controls: three plausible changes of the code, each must break its clause
    for (name, consts, clause) in (("exec_nocheck", ("FALSE", "FALSE", "FALSE"), "NoPartialSuccess"),
                                   ("exec_recvctx", ("TRUE", "TRUE", "FALSE"), "QuerierClosedAtReturn"),
                                   ("exec_endfirst", ("TRUE", "FALSE", "TRUE"), "ErrorSurfaces")):
        cfgc = re.sub(r"INVARIANTS [^\n]*\nPROPERTIES [^\n]*\n", "INVARIANTS %s\n" % clause, base % ((2, 2) + consts))
        okc, outc, stc = vlib.model_check(run, "Exec", cfgc, name, timeout=600)
        if okc or clause not in outc:
            raise Infra("non-vacuity: Exec.tla control %s should violate %s" % (name, clause))
    log("Exec.tla: %d distinct states (current code: %s); controls: without the context re-check NoPartialSuccess is violated, with a "
        "ctx-selecting receive QuerierClosedAtReturn, with the end-of-stream test before the error channel ErrorSurfaces - as expected"
        % (st["distinct"], "all properties hold" if ok else "VIOLATED"))


def extreme_params(run, binary):
    """C13, second half: invalid runtime parameters and degenerate inputs are reported as the query's error or as the
    reference engine's value - never as a dead process, and never as an internal error where the reference has a value."""
    quick = run.tier == "quick"
    scs = vlib.generate(run, "Gen_Agg", gen_cfg(run.tier, run.seed, 1, ["EmitAgg"]), "agg", fam="C13", cap=(2500 if quick else 10000), timeout=1500)
    scs += vlib.generate(run, "Gen_WF", gen_cfg(run.tier, run.seed, 1, ["EmitWF"]), "wf", fam="C13")
    # planning is part of "no query can crash the process": selectors in every syntactic position next to selectors the
    # optimizers merge them with (Optimizer.tla's pairs, emission only), and a sample of every query family
    scs += vlib.generate(run, "Optimizer", gen_cfg(run.tier, run.seed, 32 if quick else 40, ["EmitOpt"]), "opt", fam="C13",
                         cap=(4500 if quick else 12000), timeout=1500)
    scs += all_scenarios(run, 100, 2000, only=("bin", "fn", "cmp", "hist", "shard"))
    traces = vlib.replay(run, binary, "query", scs, "xp", chunks=max(1, min(vlib.NCPU // 2, len(scs) // 400)))
    # unusual windows through the API: steps below a millisecond (500 us, 1 ns, 1.5 ms), start after end
    aw = []
    for i, s0 in enumerate([s for s in scs if s.get("step", 0) > 0][:(60 if quick else 600)]):
        for j, v in enumerate(({"stepns": 500000}, {"stepns": 1}, {"stepns": 1500000}, {"swap": 1})):
            s1 = dict(s0, id="%s-aw%d" % (s0["id"], j))
            s1["cfg"] = dict(s0.get("cfg") or {}, **v)
            aw.append(s1)
    traces += vlib.replay(run, binary, "apiwin", aw, "aw", chunks=1, stall=30)
    viols, stats = vlib.validate(run, "QueryTrace", traces, "xp", extra_constants=" WFOnly = FALSE")
    hdr = headers_of(traces, {v[0] for v in viols})

    def cp(clause, fam):
        return ["C13"] if clause == "ProcessDead" else []
    internal = [v for v in viols if v[1] == "EngEqualsRef" and v[2].startswith("errpresence:errA=true errB=false")]
    attribute(run, [v for v in viols if v[1] == "ProcessDead"] + [[v[0], "InternalErrorWhereReferenceHasValue", v[2]] for v in internal], hdr,
              lambda clause, fam: ["C13"] if clause in ("ProcessDead", "InternalErrorWhereReferenceHasValue") else [])
    # ... and the vocabulary (every function, aggregation, operator, subquery, in every position) planned by the
    # distributed engine over two remote engines, fallback enabled everywhere: a dead child is a violation
    write_vocab(run, binary)
    fb = vlib.generate(run, "Gen_Fallback", gen_cfg(run.tier, run.seed, 12 if quick else 2, ["EmitFb"]), "fb", fam="C13", timeout=1500)
    for s in fb:
        s.setdefault("cfg", {})["fallback"] = 1
    dtraces = vlib.replay(run, binary, "dist", fb, "xd", chunks=max(1, min(vlib.NCPU // 2, len(fb) // 200)))
    dviols, _ = vlib.validate(run, "SessionTrace", dtraces, "xd")
    attribute(run, [v for v in dviols if v[1] == "ProcessDead"], headers_of(dtraces, {v[0] for v in dviols}),
              lambda clause, fam: ["C13"] if clause == "ProcessDead" else [])
    st = sum_stats(stats)
    run.cov["extreme_parameter_scenarios"] = st.get("sc", 0) + len(fb)
    log("extreme parameters / degenerate inputs: %d scenarios (k and quantile 0, -1, NaN, Inf, 1e18, 1e11, 1e300, per-step, NaN on empty steps; 1e308 / denormal / empty inputs)" % st.get("sc", 0))


def fault_check(run, rule_extra, assumptions):
    binary = vlib.build()
    quick = run.tier == "quick"
    if run.prop in ("C13", "C14", "C15", "C17"):
        mc_exec(run)
    if run.prop == "C13":
        extreme_params(run, binary)
    scs = vlib.generate(run, "Gen_Fault", gen_cfg(run.tier, run.seed, 1, ["EmitFault"]), "fault", fam=run.prop, timeout=600)
    modes = FAULT_MODES[run.prop]
    for s in scs:
        s["cfg"]["modes"] = modes
        s["cfg"]["maxk"] = (24 if quick else 400) if len(modes) == 1 else ((16 if quick else 250) if len(modes) == 2 else (10 if quick else 150))
    log("Gen_Fault.tla: %d plan/window/config scenarios, modes %s" % (len(scs), modes))
    chunks = max(1, min(vlib.NCPU // 2, len(scs) // 6))
    traces = vlib.replay(run, binary, "fault", scs, "f", chunks=chunks, j=vlib.NCPU, stall=120)
    viols, stats = vlib.validate(run, "ExecTrace", traces, "f")
    st = sum_stats(stats)
    hdr = headers_of(traces, {x[0] for x in viols})
    own = FAULT_CLAUSES[run.prop]

    def cp(clause, fam):
        ps = [p for p, cs in FAULT_CLAUSES.items() if clause in cs]
        if clause == "FaultFreeOK":
            ps = ["C11"]
        # a child that died or hung took its scenario's observations with it: the property being checked is not
        # vouched for there either (as in every other family)
        if clause in ("ProcessDead", "ProcessHung") and run.prop not in ps:
            ps = ps + [run.prop]
        return ps
    attribute(run, viols, hdr, cp)
    run.cov["traces_validated_against_impl"] = st.get("runs", 0)
    run.cov["samples"] = [{"query": h.get("q"), "cfg": h.get("cfg")} for h in list(headers_of(traces, {s["id"] for s in scs[:3]}).values())]
    run.cov["fault_stats"] = st
    run.cov["evaluations"] = st.get("runs", 0)
    if st.get("runs", 0) == 0 or st.get("fired", 0) == 0:
        vacuous(run, "vacuous run: no fault fired: %s" % st)
    return vlib.finish(run, "fault_enumeration",
                       rule=(("Exec.tla (Exec loop, coalesce fan-out, concurrency operators with pull and drain goroutines and bounded buffers, "
                              "context, one failing storage read) is model-checked by TLC for every interleaving and every cancellation point: no "
                              "deadlock, Exec returns, never a successful partial result, a storage failure surfaces, all goroutines exit; "
                              "the same model without the context re-check after Exec's loop violates NoPartialSuccess (non-vacuity; this "
                              "counterexample was reproduced on the real code with a gate on the scheduling point concurrent.next.recv). "
                              if run.prop in ("C13", "C14", "C15") else "") +
                             "Gen_Fault.tla emits 16 plan shapes covering every operator kind (incl. merged selects, step-invariant, unary, "
                             "distributed over two remote engines) x instant / 12-step windows x core counts. For each the replayer runs the "
                             "query fault-free (twice) and then once per fault and per storage callback index k reached by the fault-free run "
                             "(all k up to the tier's cap, else first/last and a seeded sample): " + rule_extra + " The instrumented storage "
                             "records querier open/close in real order; TLC validates the clauses of ExecTrace.tla (query life cycle with open "
                             "queriers, fault, outcome) on every event. distinct_nontrivial = runs in which the fault fired."),
                       assumptions=assumptions,
                       distinct_nontrivial=st.get("fired", 0))


def c13(run):
    return fault_check(run, "a runtime panic (a value implementing runtime.Error) raised inside the k-th callback on whichever goroutine evaluates it; "
                            "the run must end with the query's error, the child process must survive. Before that, the aggregation scenarios of "
                            "Gen_Agg.tla (parameters 0, -1, NaN, Inf, 1e18, 1e11, 1e300, per-step, NaN exactly on empty steps), Gen_WF.tla "
                            "(1e308, denormals, empty inputs), the selector pairs of Optimizer.tla in 17 syntactic positions and a sample of every "
                            "query family are replayed in child processes: a dead child, or an internal error where the "
                            "reference engine returns a value, is a violation.",
                       ["extreme parameters and degenerate data are exercised by C04/C06/C01's generators (crashes there are attributed to C13 as ProcessDead)",
                        "a dead child process identifies the crashing scenario; the batch resumes after it"])


def c14(run):
    return fault_check(run, "cancellation of the context inside the k-th callback, a callback that blocks until the context is cancelled, and "
                            "Query.Cancel() / Query.Close() from another goroutine at seeded instants and at every pass of every scheduling point of the engine "
                            "(hook H2 as a gate), against a storage that honours the context (a blocked callback returns 3 ms after the cancellation); Exec must "
                            "return within 5 s with the context's error or the complete fault-free result, and no goroutine may be alive "
                            "3 s after Close.",
                       ["bounded time = 5 s; goroutine census by runtime.NumGoroutine with a 3 s grace period", "scheduling is whatever the Go scheduler does under the injected faults"])


def c15(run):
    return fault_check(run, "an error returned by Querier(), by SeriesSet.Err after the k-th Next, or by an iterator's Seek/Next (ValNone + Err) - at the k-th "
                            "callback only (err) or at every callback from the k-th on (errdown: the storage went down), with 1, 2 and 4 shards; "
                            "the result must carry an error that wraps the storage's error.",
                       ["errors.Is(result.Err, injected) decides 'wraps the storage's error'"])


def c17(run):
    return fault_check(run, "every outcome (normal, error, panic, cancellation, blocking at every k); queriers must not be opened before Exec, "
                            "must be closed exactly once and before Exec returns; the storage hands out the very same label slices on every call "
                            "and compares them (and the samples) with deep snapshots afterwards.",
                       ["querier open/close order from the storage's own event log (global sequence numbers)"])


def c12(run):
    binary = vlib.build(race=True)
    quick = run.tier == "quick"
    scs = vlib.generate(run, "Gen_Conc", gen_cfg(run.tier, run.seed, 6 if quick else 1, ["EmitConc"]), "conc", fam="C12", cap=(60 if quick else 1200), timeout=600)
    log("Gen_Conc.tla: %d client mixes" % len(scs))
    racelog = run.path("race")
    os.environ["GORACE"] = "log_path=%s halt_on_error=0" % racelog
    os.environ["VREPLAY_RACE_LOG"] = racelog
    vlib.GOENV["GORACE"] = os.environ["GORACE"]
    vlib.GOENV["VREPLAY_RACE_LOG"] = racelog
    chunks = max(1, min(vlib.NCPU // 4, len(scs) // 10))
    traces = vlib.replay(run, binary, "concurrent", scs, "c", chunks=chunks, j=max(1, vlib.NCPU // 4), stall=180)
    st = session_validate(run, traces, lambda clause, fam: ["C12"] if clause in ("Agree", "RaceFree") else ([run.prop, "C13"] if clause == "ProcessDead" else []))
    run.cov["samples"] = [{"mix": s["cfg"]["mix"], "clients": s["cfg"]["k"], "rounds": s["cfg"]["rounds"]} for s in scs[:3]]
    if st.get("obs", 0) == 0:
        vacuous(run, "vacuous run")
    return vlib.finish(run, "model_checking",
                       rule=("Gen_Conc.tla enumerates client mixes (2..32 clients; all the same text / a 13-query native basket / native and "
                             "fallback mixed / through a distributed engine sharing two remote engines; instant or range; 1 or 3 rounds; "
                             "simultaneous or staggered start). The replayer, built with the Go race detector, first runs each query alone on "
                             "the shared engine, then all clients concurrently with seeded yields at storage callbacks and at the engine's "
                             "scheduling points; each concurrent result is an observation of SessionTrace.tla (must equal the solo result), "
                             "each race report with an engine frame is a `race` event that no action of the specification accepts; TLC "
                             "validates the trace. distinct_nontrivial = concurrent executions compared with their solo result."),
                       assumptions=["the race detector is the sensor for unsynchronised accesses (see DESIGN.md §8); it only sees accesses that were executed",
                                    "comparator classes (1e-9)"],
                       distinct_nontrivial=st.get("obs", 0) - st.get("keys", 0))


def c07(run):
    binary = vlib.build()
    mc_volcano(run)
    scs = all_scenarios(run, 700, 4000)
    quick = run.tier == "quick"
    scs += vlib.gen_random(run, binary, "compose", 800 if quick else 5000, run.prop)
    chunks = max(1, min(vlib.NCPU // 2, len(scs) // 300))
    traces = vlib.replay(run, binary, "rangeinstant", scs, "ri", chunks=chunks)
    st = session_validate(run, traces, lambda clause, fam: [run.prop] if clause == "Agree" else (["C13", run.prop] if clause == "ProcessDead" else []))
    if st.get("obs", 0) == 0:
        vacuous(run, "vacuous run: no observation")
    return vlib.finish(run, "model_checking",
                       rule=("Volcano.tla (batch mechanics: cursors, batches of B steps, positional pairing of sibling batches, coalesce, "
                             "step-invariant replication, result assembly) is model-checked for every topology and 1..MaxN steps: stream "
                             "contract, alignment, one point per grid step. Scenarios of all query generators (TLC) plus random ones are "
                             "replayed as: the range query, instant queries at grid points on both sides of every batch boundary (all points "
                             "for <= 12 steps) and sub-windows on the same grid; SessionTrace.tla (result = function of query, timestamp, "
                             "data) is validated by TLC on every observation. distinct_nontrivial = distinct (scenario, timestamp) keys observed "
                             "at least twice."),
                       assumptions=["the Go comparator's classes (equal up to 1e-9) are the equality the property means", "queries using start()/end() are excluded as the property states"],
                       distinct_nontrivial=st.get("obs", 0) - st.get("keys", 0))


RECIPES = {"C01": c01, "C07": c07, "C08": c08, "C09": c09, "C10": c10, "C11": c11, "C12": c12, "C13": c13, "C14": c14, "C15": c15, "C17": c17, "C20": c20, "C16": c16, "C18": c18, "C19": c19, "C02": c02, "C03": c03, "C04": c04, "C05": c05, "C06": c06}
