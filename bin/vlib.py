#!/usr/bin/env python3
"""Shared machinery of the /verif checks: build, TLC model checking / generation / trace
validation, replay, known findings, evidence, verdict.  Standard library only."""
import json, os, re, shutil, subprocess, sys, time, glob, hashlib

VERIF = os.path.dirname(os.path.dirname(os.path.abspath(__file__)))
SPEC = os.path.join(VERIF, "spec")
HARNESS = os.path.join(VERIF, "harness")
BUILD = os.path.join(VERIF, ".build")
EVID = os.environ.get("VERIF_EVIDENCE", os.path.join(VERIF, "evidence"))
REPLAYDIR = os.path.join(EVID, "replay")
KNOWN = os.path.join(VERIF, "KNOWN_FINDINGS.txt")
NCPU = os.cpu_count() or 4

GOENV = dict(os.environ, GOFLAGS="-mod=mod", GOPROXY="off", GOSUMDB="off", GOTOOLCHAIN="local")


class Infra(Exception):
    """Infrastructure failure: exit 2, never a violation."""


def log(*a):
    print(*a, flush=True)


class Run:
    """One check run: scratch directory, counters, timing."""

    def __init__(self, prop, tier, seed):
        self.prop, self.tier, self.seed = prop, tier, seed
        self.t0 = time.time()
        self.dir = "/tmp/verif.%s.%d" % (prop, os.getpid())
        shutil.rmtree(self.dir, ignore_errors=True)
        os.makedirs(self.dir)
        for f in glob.glob(os.path.join(SPEC, "*.tla")):
            shutil.copy(f, self.dir)
        self.cov = {"states": 0, "transitions": 0, "traces_validated_against_impl": 0, "samples": [],
                    "evaluations": 0, "distinct_nontrivial": 0, "mc": [], "gen": [], "tv": []}
        self.viols = []      # dicts: {prop, id, clause, detail, scenario}
        self.known_hits = {}  # finding id -> count
        self.notes = []

    def cleanup(self):
        shutil.rmtree(self.dir, ignore_errors=True)

    def path(self, name):
        return os.path.join(self.dir, name)


# --------------------------------------------------------------------------------------
# build

def build(race=False):
    """Builds the replayer against /repo's working tree. For experiments with seeded changes in scratch
    worktrees (never for the registered checks) VERIF_REPO may name another checkout."""
    repo = os.environ.get("VERIF_REPO", "/repo")
    harness, outdir = HARNESS, BUILD
    if repo != "/repo":
        outdir = "/tmp/verif.build.%d" % os.getpid()
        harness = os.path.join(outdir, "harness")
        shutil.rmtree(outdir, ignore_errors=True)
        shutil.copytree(HARNESS, harness)
        gm = open(os.path.join(harness, "go.mod")).read().replace("=> /repo", "=> " + repo)
        open(os.path.join(harness, "go.mod"), "w").write(gm)
        import atexit
        atexit.register(lambda: shutil.rmtree(outdir, ignore_errors=True))
    os.makedirs(outdir, exist_ok=True)
    shutil.copy(os.path.join(repo, "go.sum"), os.path.join(harness, "go.sum"))
    out = os.path.join(outdir, "vreplay-race" if race else "vreplay")
    cmd = ["go", "build", "-tags", "verif", "-o", out]
    if race:
        cmd.insert(2, "-race")
    cmd.append("./cmd/vreplay")
    p = subprocess.run(cmd, cwd=harness, env=GOENV, capture_output=True, text=True)
    if p.returncode != 0:
        raise Infra("go build failed:\n" + p.stdout + p.stderr)
    return out


# --------------------------------------------------------------------------------------
# TLC

STATS_RE = re.compile(r"(\d+) states generated, (\d+) distinct states found, (\d+) states left")


def tlc(run, module, cfg_text, name, workers=None, timeout=900, extra=(), simulate=None, depth=None, stream=False):
    """Run TLC on module with the given cfg text. Returns (stdout, stats dict)."""
    cfg = run.path(name + ".cfg")
    with open(cfg, "w") as f:
        f.write(cfg_text)
    meta = run.path("meta." + name)
    cmd = ["timeout", str(timeout), "java", "-XX:+UseParallelGC", "-Xss512m", "-Xmx12g", "-Djava.io.tmpdir=" + run.dir,
           "-cp", "/opt/veriftools/tla/tla2tools.jar:/opt/veriftools/tla/CommunityModules-deps.jar",
           "tlc2.TLC", "-workers", str(workers or min(8, NCPU)), "-metadir", meta, "-config", cfg]
    if simulate:
        cmd += ["-simulate", simulate, "-depth", str(depth or 100), "-seed", str(run.seed)]
    cmd += list(extra) + [module + ".tla"]
    t0 = time.time()
    outp = run.path(name + ".out")
    with open(outp, "w") as fo:
        p = subprocess.run(cmd, cwd=run.dir, stdout=fo, stderr=subprocess.STDOUT)
    wall = time.time() - t0
    shutil.rmtree(meta, ignore_errors=True)
    st = {"module": module, "name": name, "wall_s": round(wall, 2), "rc": p.returncode}
    if stream:
        # generator runs print one line per scenario (gigabytes in the thorough tier): never held in memory
        out, keep = [], 0
        with open(outp, errors="replace") as f:
            for line in f:
                if line.startswith('<<"SCN"'):
                    continue
                m = STATS_RE.search(line)
                if m:
                    st["generated"], st["distinct"] = int(m.group(1)), int(m.group(2))
                if len(out) < 4000 or line.startswith("Error:") or "Exception" in line or "violated" in line or keep > 0:
                    keep = 30 if (line.startswith("Error:") or "Exception" in line) else max(0, keep - 1)
                    out.append(line)
        out = "".join(out)
    else:
        out = open(outp, errors="replace").read()
        m = None
        for m in STATS_RE.finditer(out):
            pass
        if m:
            st["generated"], st["distinct"] = int(m.group(1)), int(m.group(2))
    if p.returncode == 124:
        raise Infra("TLC timeout on %s (%ds)" % (name, timeout))
    return out, st


class _Rev:
    """max-heap entry (heapq is a min-heap): the largest key is evicted first."""
    __slots__ = ("key",)

    def __init__(self, key):
        self.key = key

    def __lt__(self, other):
        return self.key > other.key


def tlc_errors(out):
    """Return the error text of a TLC run ('' if none)."""
    if "Error:" not in out and "Exception" not in out:
        return ""
    lines = out.splitlines()
    for i, l in enumerate(lines):
        if l.startswith("Error:") or "Exception" in l:
            return "\n".join(lines[i:i + 25])
    return ""


def parse_printed(out, tag):
    """Extract the JSON payloads of PrintT(<<tag, ToJson(x)>>) lines."""
    pre = '<<"%s", ' % tag
    res = []
    for line in out.splitlines():
        if line.startswith(pre) and line.endswith(">>"):
            js = line[len(pre):-2]
            try:
                res.append(json.loads(json.loads(js)))
            except Exception as e:  # noqa
                raise Infra("cannot parse TLC output line: %s (%s)" % (line[:200], e))
    return res


def model_check(run, module, cfg_text, name, workers=None, timeout=900, allow_violation=False):
    """Exhaustive TLC run of an implementation-shaped / design model. Adds to coverage.
    Returns (ok, out, stats). A violated invariant/property is reported to the caller, which
    decides what it means (model-level counterexamples are never verdicts by themselves)."""
    out, st = tlc(run, module, cfg_text, name, workers=workers, timeout=timeout)
    violated = ("is violated" in out) or ("Temporal properties were violated" in out)
    err = tlc_errors(out)
    if err and not violated:
        raise Infra("TLC failed on %s:\n%s" % (name, err))
    if "generated" not in st:
        raise Infra("TLC produced no statistics for %s:\n%s" % (name, out[-2000:]))
    run.cov["states"] += st["distinct"]
    run.cov["transitions"] += st["generated"]
    st["violated"] = violated
    run.cov["mc"].append(st)
    return (not violated), out, st


def generate(run, module, cfg_text, name, fam=None, workers=None, timeout=900, cap=None, simulate=None, depth=None):
    """TLC as scenario generator: returns the list of scenario dicts printed with tag SCN."""
    staged = False
    m = re.search(r"^INIT Init\nNEXT Next\n(.*)^INVARIANTS ([^\n]*)\n", cfg_text, re.S | re.M)
    if m and not simulate:
        # TLC enumerates (and checks) initial states on one thread. The generators' state spaces are all initial
        # states, so a wrapper module adds one step: stage 0 -> 1, and every law is evaluated at stage 1 only,
        # i.e. by the worker that takes the state off the queue. Same states, same laws, all cores.
        staged = True
        invs = m.group(2).split()
        wname = "PG_%s_%s" % (module, re.sub(r"\W", "_", name))
        with open(run.path(wname + ".tla"), "w") as f:
            f.write("---- MODULE %s ----\nEXTENDS %s\nVARIABLE stage\nPInit == Init /\\ stage = 0\n"
                    "PNext == stage = 0 /\\ stage' = 1 /\\ UNCHANGED g\n" % (wname, module))
            for i in invs:
                f.write("P_%s == stage = 1 => %s\n" % (i, i))
            f.write("====\n")
        cfg_text = cfg_text.replace("INIT Init\nNEXT Next\n", "INIT PInit\nNEXT PNext\n").replace(
            "INVARIANTS " + m.group(2), "INVARIANTS " + " ".join("P_" + i for i in invs))
        module = wname
    out, st = tlc(run, module, cfg_text, name, workers=workers, timeout=timeout, simulate=simulate, depth=depth, stream=True)
    if staged and "distinct" in st:
        st["distinct"] //= 2        # every scenario is one stage-0 and one stage-1 state
        st["generated"] //= 2
    err = tlc_errors(out)
    if err and "is violated" not in out:
        raise Infra("TLC generator %s failed:\n%s" % (name, err))
    if "is violated" in out:
        # a model-level law failed on an enumerated scenario: specification error
        raise Infra("generator invariant violated in %s (specification error):\n%s" % (name, err or out[-3000:]))
    # de-duplicate (simulation repeats) and cap deterministically: the `cap` scenarios with the smallest
    # md5(scenario + seed), selected while streaming over TLC's output
    import heapq
    pre = '<<"SCN", '
    seen, heap, emitted = set(), [], 0
    with open(run.path(name + ".out"), errors="replace") as f:
        for line in f:
            if not line.startswith(pre):
                continue
            line = line.rstrip("\n")
            if not line.endswith(">>"):
                raise Infra("truncated TLC output line: %s" % line[:200])
            emitted += 1
            try:
                sc = json.loads(json.loads(line[len(pre):-2]))
            except Exception as e:  # noqa
                raise Infra("cannot parse TLC output line: %s (%s)" % (line[:200], e))
            k = json.dumps(sc, sort_keys=True)
            dk = hashlib.md5(k.encode()).digest()
            if dk in seen:
                continue
            seen.add(dk)
            key = hashlib.md5((k + str(run.seed)).encode()).hexdigest()
            if sc.get("pin"):
                key = "!" + key    # pinned scenarios sort first: the cap never drops them
            if cap and len(heap) >= cap:
                if key < heap[0][0].key:
                    heapq.heapreplace(heap, (_Rev(key), k))
            else:
                heapq.heappush(heap, (_Rev(key), k))
    uniq = [json.loads(k) for (_, k) in sorted(heap, key=lambda x: x[0].key)]
    st["enumerated"] = st.get("distinct", 0)
    st["emitted"] = emitted
    st["distinct_emitted"] = len(seen)
    st["used"] = len(uniq)
    for i, s in enumerate(uniq):
        s["id"] = "%s-%s-%05d" % (fam or s.get("fam", "X"), name, i)
        if fam:
            s["fam"] = fam
    if "distinct" in st and not simulate:
        run.cov["states"] += st["distinct"]
        run.cov["transitions"] += st["generated"]
    run.cov["gen"].append(st)
    return uniq


def replay(run, binary, fam, scenarios, name, ops=False, j=None, chunks=None, stall=60):
    """Replay scenarios through the real code. Returns the list of trace chunk files."""
    inp = run.path(name + ".scn.jsonl")
    chunks = chunks or 1
    if chunks > 1:
        # the replayer cuts its input into contiguous chunks (one trace file, one TLC run each): deal the scenarios out
        # so that every chunk gets its share of each generator's scenarios (the random ones take TLC much longer)
        scenarios = [s for c in range(chunks) for s in scenarios[c::chunks]]
    with open(inp, "w") as f:
        for s in scenarios:
            f.write(json.dumps(s) + "\n")
    outp = run.path(name + ".trace.ndjson")
    j = j or max(1, NCPU // 2)
    chunks = chunks or 1
    cmd = [binary, "run", "-fam", fam, "-in", inp, "-out", outp, "-j", str(j), "-seed", str(run.seed),
           "-chunks", str(chunks), "-stall", "%ds" % stall]
    if ops:
        cmd.append("-ops")
    t0 = time.time()
    p = subprocess.run(cmd, capture_output=True, text=True, env=GOENV)
    if p.returncode != 0:
        raise Infra("vreplay failed (%d):\n%s%s" % (p.returncode, p.stdout[-2000:], p.stderr[-4000:]))
    m = re.search(r"REPLAY scenarios=(\d+) children=(\d+) dead=(\d+)", p.stdout)
    if not m or int(m.group(1)) != len(scenarios):
        raise Infra("vreplay did not account for all scenarios: " + p.stdout[-500:])
    run.cov["evaluations"] += len(scenarios)
    run.notes.append("replay %s: %d scenarios, %d dead children, %.1fs" % (name, len(scenarios), int(m.group(3)), time.time() - t0))
    if chunks == 1:
        return [outp]
    return ["%s.%d" % (outp, c) for c in range(chunks)]


def gen_random(run, binary, gen, n, tag, seed_offset=0):
    """Seeded random scenarios from the Go-side generator (outcome computed by TLC at validation)."""
    p = subprocess.run([binary, "gen", "-fam", gen, "-n", str(n), "-seed", str(run.seed * 1000 + seed_offset), "-tag", tag],
                       capture_output=True, text=True, env=GOENV)
    if p.returncode != 0:
        raise Infra("vreplay gen failed: " + p.stderr[-2000:])
    scs = [json.loads(l) for l in p.stdout.splitlines() if l.strip()]
    run.cov["gen"].append({"module": "vreplay gen " + gen, "name": "rnd", "used": len(scs)})
    return scs


def count_lines(path):
    n = 0
    with open(path, "rb") as f:
        for _ in f:
            n += 1
    return n


def validate(run, module, trace_files, name, invariants=("Done",), extra_constants="", timeout=3000, parallel=True):
    """Trace validation: TLC (-workers 1) consumes each trace file with the trace spec.
    Returns (viol list, stat list). Acceptance: every line consumed."""
    procs = []
    results = []
    files = [f for f in trace_files if os.path.exists(f) and os.path.getsize(f) > 0]

    def start(i, tf):
        cfg = ("SPECIFICATION Spec\nCONSTANTS\n TraceFile = \"%s\"\n%s\nINVARIANTS %s\nPOSTCONDITION Accepted\nCHECK_DEADLOCK FALSE\n"
               % (tf, extra_constants, " ".join(invariants)))
        nm = "%s.tv%d" % (name, i)
        d = run.path(nm)
        os.makedirs(d, exist_ok=True)
        for f in glob.glob(os.path.join(run.dir, "*.tla")):
            shutil.copy(f, d)
        with open(os.path.join(d, "tv.cfg"), "w") as f:
            f.write(cfg)
        cmd = ["timeout", str(timeout), "java", "-XX:+UseParallelGC", "-Xss512m", "-Xmx6g", "-Djava.io.tmpdir=" + d,
               "-cp", "/opt/veriftools/tla/tla2tools.jar:/opt/veriftools/tla/CommunityModules-deps.jar",
               "tlc2.TLC", "-workers", "1", "-metadir", os.path.join(d, "meta"), "-config", "tv.cfg", module + ".tla"]
        fo = open(os.path.join(d, "out.txt"), "w")
        return (subprocess.Popen(cmd, cwd=d, stdout=fo, stderr=subprocess.STDOUT), fo, d, tf, time.time())

    maxpar = max(1, NCPU // 2) if parallel else 1
    pending = list(enumerate(files))
    active = []
    viols, stats = [], []
    while pending or active:
        while pending and len(active) < maxpar:
            i, tf = pending.pop(0)
            active.append(start(i, tf))
        p, fo, d, tf, t0 = active.pop(0)
        rc = p.wait()
        fo.close()
        out = open(os.path.join(d, "out.txt"), errors="replace").read()
        if rc == 124:
            raise Infra("trace validation timeout on " + tf)
        m = None
        for m in STATS_RE.finditer(out):
            pass
        nlines = count_lines(tf)
        err = tlc_errors(out)
        if not m or "Finished in" not in out or (err and "Postcondition" not in err and "POSTCONDITION" not in err):
            raise Infra("trace validation failed on %s:\n%s" % (tf, err or out[-3000:]))
        accepted = "violated" not in out
        if not accepted:
            raise Infra("trace not accepted (not every line consumed) for %s:\n%s" % (tf, out[-2000:]))
        v = parse_printed(out, "VIOL")
        s = parse_printed(out, "STAT")
        if len(v) != 1:
            raise Infra("trace validation of %s printed %d VIOL lines\n%s" % (tf, len(v), out[-2000:]))
        viols += v[0]
        if s:
            stats.append(s[0])
        for c in parse_printed(out, "CALIB"):
            run.cov.setdefault("calibration_misses", [])
            run.cov["calibration_misses"] += c
        run.cov["tv"].append({"module": module, "lines": nlines, "states": int(m.group(2)), "wall_s": round(time.time() - t0, 2)})
        run.cov["states"] += int(m.group(2))
        run.cov["transitions"] += int(m.group(1))
        shutil.rmtree(d, ignore_errors=True)
    return viols, stats


# --------------------------------------------------------------------------------------
# known findings

def load_known():
    """KNOWN_FINDINGS.txt lines:
       finding: property=<id> id=<slug> clause=<regex> query=<regex> detail=<regex> :: <what fails>
       fixed: property=<id> <commit> <what failed>"""
    out = []
    if not os.path.exists(KNOWN):
        return out
    for line in open(KNOWN):
        line = line.strip()
        if not line.startswith("finding:"):
            continue
        head, _, what = line[len("finding:"):].partition("::")
        kv = {}
        for m in re.finditer(r"(\w+)=(\"[^\"]*\"|\S+)", head):
            v = m.group(2)
            if v.startswith('"'):
                v = v[1:-1]
            kv[m.group(1)] = v
        kv["what"] = what.strip()
        out.append(kv)
    return out


def match_known(known, prop, clause, query, detail):
    for k in known:
        if k.get("property") != prop:
            continue
        if "clause" in k and not re.search(k["clause"], clause or ""):
            continue
        if "query" in k and not re.search(k["query"], query or ""):
            continue
        if "detail" in k and not re.search(k["detail"], detail or ""):
            continue
        return k
    return None


# --------------------------------------------------------------------------------------
# verdict + evidence

def finish(run, level, rule, assumptions, distinct_nontrivial=None, exhaustive=False, extra=None):
    known = load_known()
    new, hits = [], {}
    for v in run.viols:
        k = match_known(known, v["prop"], v.get("clause", ""), v.get("query", ""), v.get("detail", ""))
        if k:
            hits.setdefault(k["id"], [k, 0])
            hits[k["id"]][1] += 1
        else:
            new.append(v)
    for fid, (k, n) in sorted(hits.items()):
        log("KNOWN-FINDING: property=%s %s [%s, %d scenario(s)]" % (k["property"], k["what"], fid, n))
    rc = 0
    for old in glob.glob(os.path.join(REPLAYDIR, "%s.%s.seed*.json" % (run.prop, run.tier))):
        os.remove(old)
    if new:
        os.makedirs(REPLAYDIR, exist_ok=True)
        byprop = {}
        for v in new:
            byprop.setdefault(v["prop"], []).append(v)
        for prop, vs in byprop.items():
            path = os.path.join(REPLAYDIR, "%s.%s.seed%d.json" % (prop, run.tier, run.seed))
            with open(path, "w") as f:
                json.dump(vs[:2000], f, indent=1)
            for v in vs[:5]:
                log("  violation: %s %s %s :: %s" % (v.get("id"), v.get("clause"), v.get("detail", "")[:200], v.get("query", "")[:200]))
            log("VIOLATION property=%s replay=%s" % (prop, path))
        rc = 1
    cov = run.cov
    if distinct_nontrivial is not None:
        cov["distinct_nontrivial"] = distinct_nontrivial
    cov["rule"] = rule
    cov["exhaustive"] = exhaustive
    cov["known_findings_reproduced"] = {fid: n for fid, (k, n) in hits.items()}
    cov["notes"] = run.notes
    if extra:
        cov.update(extra)
    if not cov["samples"]:
        cov["samples"] = [{"note": "no sample recorded"}]
    ev = {"property_id": run.prop, "tier": run.tier, "seed": run.seed, "level": level, "coverage": cov,
          "assumptions": assumptions, "wall_s": round(time.time() - run.t0, 1), "violations": len(new)}
    os.makedirs(EVID, exist_ok=True)
    with open(os.path.join(EVID, run.prop + ".json"), "w") as f:
        json.dump(ev, f, indent=1)
    log("%s %s seed=%d: %d violation(s), %d known-finding hit(s), %.0fs" % (run.prop, run.tier, run.seed, len(new), sum(n for _, n in hits.values()), time.time() - run.t0))
    return rc


def main_wrapper(fn):
    import argparse
    ap = argparse.ArgumentParser()
    ap.add_argument("prop")
    ap.add_argument("--tier", default=os.environ.get("VERIF_TIER", "quick"))
    ap.add_argument("--replay", default=None)
    ap.add_argument("--keep", action="store_true")
    a = ap.parse_args()
    seed = int(os.environ.get("VERIF_SEED", "1") or 1)
    run = Run(a.prop, a.tier, seed)
    try:
        rc = fn(run, a)
    except Infra as e:
        log("INFRASTRUCTURE ERROR (exit 2, not a verdict): %s" % e)
        rc = 2
    finally:
        if not a.keep:
            run.cleanup()
    sys.exit(rc)
