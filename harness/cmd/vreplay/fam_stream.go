package main

import (
	"context"
	"math/rand"
	"runtime"
	"sort"
	"sync"
	"time"

	"github.com/prometheus/prometheus/promql/parser"

	"github.com/thanos-community/promql-engine/engine"

	"verifharness/optrace"
	"verifharness/run"
	"verifharness/scn"
	"verifharness/vt"
)

func init() {
	families["stream"] = famStream
}

func seqOf(e vt.Ev) int64 {
	switch v := e["seq"].(type) {
	case int64:
		return v
	case int:
		return int64(v)
	case float64:
		return int64(v)
	}
	return 0
}

// drainOps returns the recorded operator events ordered by their return sequence number.
func drainOps(sink *vt.Sink) []vt.Ev {
	evs := sink.Drain()
	sort.SliceStable(evs, func(i, j int) bool { return seqOf(evs[i]) < seqOf(evs[j]) })
	return evs
}

// wholeResult projects a complete result into one observation (all timestamps).
func wholeResult(r run.CResult) Obs {
	if r.Err != "" {
		return Obs{Err: true}
	}
	o := Obs{Elems: map[string]float64{}}
	for _, s := range r.Series {
		for i, p := range s.Pts {
			k := run.LsString(s.LS) + "@" + itoa(p.T)
			if _, dup := o.Elems[k]; dup {
				o.Dup = true
			}
			o.Elems[k] = s.F[i]
		}
	}
	return o
}

func itoa(n int64) string {
	if n == 0 {
		return "0"
	}
	neg := n < 0
	if neg {
		n = -n
	}
	var b [24]byte
	i := len(b)
	for n > 0 {
		i--
		b[i] = byte('0' + n%10)
		n /= 10
	}
	if neg {
		i--
		b[i] = '-'
	}
	return string(b[i:])
}

// famStream (C18): every operator of the plan is observed at the exported operator interface
// under four modes: passive, series requested first on every operator, one extra Next after the
// end of every stream, and seeded scheduling perturbation. The final results of the modes must
// agree (the series list is served correctly whether or not it was requested first).
func famStream(sc *scn.Scenario, em func(vt.Ev)) {
	q := sc.Query()
	expr, err := parser.ParseExpr(q)
	if err != nil {
		em(vt.Ev{"ev": "skip", "why": "parse", "q": q})
		return
	}
	runtime.GOMAXPROCS(sc.Procs())
	em(header(sc, expr))
	cl := newClassifier()
	modes := []struct {
		name string
		m    optrace.Mode
	}{
		{"passive", optrace.Mode{Record: true}},
		{"series-first", optrace.Mode{Record: true, SeriesFirst: true}},
		{"probe-end", optrace.Mode{Record: true, ProbeEnd: true}},
		{"yield", optrace.Mode{Record: true}},
	}
	for _, md := range modes {
		m := md.m
		if md.name == "yield" {
			var mu sync.Mutex
			r := rand.New(rand.NewSource(flagSeed*31 + int64(len(q))))
			m.Yield = func(op int, call string) {
				mu.Lock()
				x := r.Intn(8)
				mu.Unlock()
				switch {
				case x < 3:
					runtime.Gosched()
				case x == 3:
					time.Sleep(time.Duration(20+op) * time.Microsecond)
				}
			}
		}
		sink := &vt.Sink{}
		optrace.Configure(m, sink)
		eng := engine.New(run.EngineOpts(sc, sc.CfgStr("opt", "default"), true, nil))
		out := run.Exec(context.Background(), eng, run.Store(sc), sc, false)
		optrace.Disable()
		if out.CreateErr != nil {
			em(vt.Ev{"ev": "skip", "why": "not native", "q": q})
			break
		}
		settle(baseGoroutines)
		em(vt.Ev{"ev": "cfg", "cfg": "mode=" + md.name})
		for _, e := range drainOps(sink) {
			em(e)
		}
		o := wholeResult(out.C)
		em(vt.Ev{"ev": "obs", "key": "result", "cls": cl.class("result", o), "src": md.name, "desc": o.String()})
	}
	em(vt.Ev{"ev": "end"})
}
