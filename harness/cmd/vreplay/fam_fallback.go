package main

import (
	"context"
	"errors"
	"runtime"

	"github.com/prometheus/client_golang/prometheus"
	dto "github.com/prometheus/client_model/go"
	"github.com/prometheus/prometheus/promql"

	"github.com/thanos-community/promql-engine/api"
	"github.com/thanos-community/promql-engine/engine"
	"github.com/thanos-community/promql-engine/execution/parse"

	"verifharness/run"
	"verifharness/scn"
	"verifharness/vstore"
	"verifharness/vt"
)

func init() {
	families["fallback"] = famFallback
}

func counterValues(reg *prometheus.Registry) (t, f float64) {
	mfs, _ := reg.Gather()
	for _, mf := range mfs {
		if mf.GetName() != "promql_engine_queries_total" {
			continue
		}
		for _, m := range mf.GetMetric() {
			v := m.GetCounter().GetValue()
			for _, l := range m.GetLabel() {
				if l.GetName() == "fallback" {
					if l.GetValue() == "true" {
						t = v
					} else {
						f = v
					}
				}
			}
		}
	}
	return
}

var _ = dto.MetricType_COUNTER

func isSentinel(err error) bool {
	return err != nil && (errors.Is(err, parse.ErrNotSupportedExpr) || errors.Is(err, parse.ErrNotImplemented))
}

// famFallback (C08): query texts over the whole vocabulary; fallback on and off; creation
// outcome, path, counters and executed result against the reference engine.
func famFallback(sc *scn.Scenario, em func(vt.Ev)) {
	fallbackOn(sc, em, "")
	// the same for the distributed engine over two remote engines that do not fall back themselves
	// (they reject what they cannot evaluate when the remote query is created): one more scenario
	d := *sc
	d.ID = sc.ID + "-dist"
	fallbackOn(&d, em, "dist")
	// ... and over two remote engines that answer what they cannot evaluate through their own fallback
	f := *sc
	f.ID = sc.ID + "-distfb"
	fallbackOn(&f, em, "distfb")
}

func fallbackOn(sc *scn.Scenario, em func(vt.Ev), kind string) {
	distributed := kind != ""
	q := sc.Query()
	runtime.GOMAXPROCS(sc.Procs())
	em(vt.Ev{"ev": "sc", "id": sc.ID, "fam": sc.Fam, "q": q, "start": sc.Start, "end": sc.End, "step": sc.Step, "lb": sc.LB, "qlb": sc.QLB, "tickms": sc.TickMs, "data": []any{},
		"cfg": map[string]any{"engine": kind}})
	ref := promql.NewEngine(run.PromOpts(sc.Dur(sc.LB)))
	rq, rerr := run.Create(ref, run.Store(sc), sc)
	em(vt.Ev{"ev": "ref", "ok": rerr == nil})
	// the construct the query text was built around (a vector or scalar expression), created on its own with
	// the fallback enabled: whether it is supported is decided "from the expression alone"
	if part := sc.CfgStr("part", ""); part != "" && part != q && !distributed {
		psc := *sc
		psc.Q = part
		var peng run.QueryEngine = engine.New(run.EngineOpts(sc, "default", false, nil))
		pq, perr := run.Create(peng, run.Store(sc), &psc)
		em(vt.Ev{"ev": "part", "q": part, "ok": perr == nil, "path": run.PathOf(pq)})
		if perr == nil {
			pq.Close()
		}
	}
	var rres run.CResult
	if rerr == nil {
		rres = run.Canon(rq.Exec(context.Background()))
		rq.Close()
	}
	for _, fb := range []bool{true, false} {
		reg := prometheus.NewRegistry()
		var eng run.QueryEngine
		if !distributed {
			eng = engine.New(run.EngineOpts(sc, "default", !fb, reg))
		} else {
			all := run.SeriesOf(sc, sc.Data)
			var remotes []api.RemoteEngine
			for e := 0; e < 2; e++ {
				var part []vstore.Series
				for j, s := range all {
					if j%2 == e {
						part = append(part, s)
					}
				}
				remotes = append(remotes, engine.NewLocalEngine(run.EngineOpts(sc, "default", kind == "dist", nil), vstore.New(part)))
			}
			eng = engine.NewDistributedEngine(run.EngineOpts(sc, "default", !fb, reg), api.NewStaticEndpoints(remotes))
		}
		t0, f0 := counterValues(reg)
		qry, err := run.Create(eng, run.Store(sc), sc)
		t1, f1 := counterValues(reg)
		em(vt.Ev{"ev": "create", "fallback": fb, "ok": err == nil, "path": run.PathOf(qry), "sentinel": isSentinel(err),
			"dtrue": int(t1 - t0), "dfalse": int(f1 - f0), "err": errText(err)})
		if err != nil {
			continue
		}
		res := qry.Exec(context.Background())
		c := run.Canon(res)
		qry.Close()
		d := run.Compare(c, rres)
		equal := rerr == nil && d.Equal
		em(vt.Ev{"ev": "exec", "fallback": fb, "equal": equal, "sentinel": isSentinel(res.Err), "desc": d.Desc, "shape": d.What + ":" + d.Shape})
	}
	em(vt.Ev{"ev": "end"})
}

func errText(err error) string {
	if err == nil {
		return ""
	}
	s := err.Error()
	if len(s) > 200 {
		s = s[:200]
	}
	return s
}
