package main

import (
	"context"
	"fmt"
	"math/rand"
	"runtime"
	"sort"
	"strings"

	"github.com/prometheus/prometheus/promql"
	"github.com/prometheus/prometheus/promql/parser"

	"github.com/thanos-community/promql-engine/engine"

	"verifharness/run"
	"verifharness/scn"
	"verifharness/vt"
)

func init() {
	families["rangeinstant"] = famRangeInstant
}

// Obs is the projection of a result at one timestamp: label set -> value, or an error.
type Obs struct {
	Err   bool
	Elems map[string]float64
	Dup   bool
}

func (a Obs) equal(b Obs) bool {
	if a.Err != b.Err || a.Dup != b.Dup {
		return false
	}
	if a.Err {
		return true
	}
	if len(a.Elems) != len(b.Elems) {
		return false
	}
	for k, v := range a.Elems {
		w, ok := b.Elems[k]
		if !ok || !run.FloatEq(v, w) {
			return false
		}
	}
	return true
}

// diff lists the elements on which two observations differ (at most eight).
func (a Obs) diff(b Obs) string {
	if a.Err != b.Err {
		return fmt.Sprintf("error: %v, baseline: %v", a.Err, b.Err)
	}
	var out []string
	for k, v := range a.Elems {
		if w, ok := b.Elems[k]; !ok {
			out = append(out, fmt.Sprintf("%s=%v (not in the baseline)", k, v))
		} else if !run.FloatEq(v, w) {
			out = append(out, fmt.Sprintf("%s=%v (baseline %v)", k, v, w))
		}
	}
	for k, w := range b.Elems {
		if _, ok := a.Elems[k]; !ok {
			out = append(out, fmt.Sprintf("%s missing (baseline %v)", k, w))
		}
	}
	sort.Strings(out)
	if len(out) > 8 {
		out = out[:8]
	}
	return strings.Join(out, "; ")
}

func (a Obs) String() string {
	if a.Err {
		return "error"
	}
	var ks []string
	for k, v := range a.Elems {
		ks = append(ks, fmt.Sprintf("%s=%v", k, v))
	}
	sort.Strings(ks)
	s := strings.Join(ks, " ")
	if len(s) > 160 {
		s = s[:160] + "..."
	}
	return "{" + s + "}"
}

// classifier assigns class ids: results equal up to rounding get the same id per key.
type classifier struct {
	reps map[string][]Obs
}

func newClassifier() *classifier { return &classifier{reps: map[string][]Obs{}} }
func (c *classifier) class(key string, o Obs) int {
	for i, r := range c.reps[key] {
		if r.equal(o) {
			return i
		}
	}
	c.reps[key] = append(c.reps[key], o)
	return len(c.reps[key]) - 1
}

// projectAt projects a canonical result at timestamp tms.
func projectAt(r run.CResult, tms int64) Obs {
	if r.Err != "" {
		return Obs{Err: true}
	}
	o := Obs{Elems: map[string]float64{}}
	for _, s := range r.Series {
		for i, p := range s.Pts {
			if p.T == tms {
				k := run.LsString(s.LS)
				if _, dup := o.Elems[k]; dup {
					o.Dup = true
				}
				o.Elems[k] = s.F[i]
			}
		}
	}
	return o
}

func usesStartEnd(q string) bool {
	return strings.Contains(q, "start()") || strings.Contains(q, "end()")
}

// famRangeInstant (C07): the points of a range query at t are the instant query's samples at t,
// for grid points on both sides of every batch boundary; and the result over a sub-window equals
// the restriction of the result over the window.
func famRangeInstant(sc *scn.Scenario, em func(vt.Ev)) {
	q := sc.Query()
	expr, err := parser.ParseExpr(q)
	if err != nil || sc.IsInstant() || usesStartEnd(q) {
		em(vt.Ev{"ev": "skip", "why": "not applicable", "q": q})
		return
	}
	runtime.GOMAXPROCS(sc.Procs())
	em(header(sc, expr))
	eng := engine.New(run.EngineOpts(sc, "default", true, nil))
	st := run.Store(sc)
	full := run.Exec(context.Background(), eng, st.Clone(), sc, false)
	if full.CreateErr != nil {
		em(vt.Ev{"ev": "skip", "why": "range query not native", "q": q})
		em(vt.Ev{"ev": "end"})
		return
	}
	n := (sc.End-sc.Start)/sc.Step + 1
	if full.C.Err != "" {
		// a failing range query is the sequence of its instant queries when one of them fails too. The reference
		// engine also fails a range query as a whole when two series of equal label sets yield anywhere in the
		// window (never at the same step), which no instant query sees: then the engine follows the reference
		// (C01) and the scenario says nothing here. Otherwise the failure is compared like any other result.
		explained := false
		for i := int64(0); i < n && !explained; i++ {
			t := sc.Start + i*sc.Step
			isc := *sc
			isc.Start, isc.End, isc.Step = t, t, 0
			out := run.Exec(context.Background(), eng, st.Clone(), &isc, false)
			explained = out.CreateErr != nil || out.C.Err != ""
		}
		if !explained {
			ref := promql.NewEngine(run.PromOpts(sc.Dur(sc.LB)))
			rout := run.Exec(context.Background(), ref, st.Clone(), sc, true)
			explained = rout.CreateErr != nil || rout.C.Err != ""
		}
		if explained {
			em(vt.Ev{"ev": "skip", "why": "range query failing as its instant queries or the reference do", "q": q})
			em(vt.Ev{"ev": "end"})
			return
		}
	}
	cl := newClassifier()
	obs := func(t int64, o Obs, src string) {
		key := fmt.Sprintf("t=%d", t)
		em(vt.Ev{"ev": "obs", "key": key, "cls": cl.class(key, o), "src": src, "desc": o.String()})
	}
	em(vt.Ev{"ev": "cfg", "cfg": fmt.Sprintf("window=[%d,%d]/%d", sc.Start, sc.End, sc.Step)})
	for i := int64(0); i < n; i++ {
		t := sc.Start + i*sc.Step
		obs(t, projectAt(full.C, sc.Ms(t)), "range")
	}
	// "... and no other points are returned": the points of the range result that lie on no grid
	// step (before the start, after the end, between two steps) - the grid itself has none
	off := Obs{Elems: map[string]float64{}}
	for _, s := range full.C.Series {
		for _, p := range s.Pts {
			d := p.T - sc.Ms(sc.Start)
			if d < 0 || p.T > sc.Ms(sc.End) || d%sc.Ms(sc.Step) != 0 {
				off.Elems[fmt.Sprintf("%s@%d", run.LsString(s.LS), p.T)] = 1
			}
		}
	}
	offKey := func(o Obs, src string) {
		em(vt.Ev{"ev": "obs", "key": "points off the grid", "cls": cl.class("offgrid", o), "src": src, "desc": o.String()})
	}
	offKey(Obs{Elems: map[string]float64{}}, "grid")
	offKey(off, "range")
	// instant queries
	pick := map[int64]bool{}
	if n <= 12 {
		for i := int64(0); i < n; i++ {
			pick[i] = true
		}
	} else {
		pick[0], pick[n-1] = true, true
		for b := int64(10); b < n; b += 10 {
			pick[b-1], pick[b] = true, true
		}
		r := rand.New(rand.NewSource(flagSeed + int64(len(q))))
		for k := 0; k < 3; k++ {
			pick[r.Int63n(n)] = true
		}
	}
	var idx []int64
	for i := range pick {
		idx = append(idx, i)
	}
	sort.Slice(idx, func(a, b int) bool { return idx[a] < idx[b] })
	for _, i := range idx {
		t := sc.Start + i*sc.Step
		isc := *sc
		isc.Start, isc.End, isc.Step = t, t, 0
		em(vt.Ev{"ev": "cfg", "cfg": fmt.Sprintf("instant@%d", t)})
		out := run.Exec(context.Background(), eng, st.Clone(), &isc, false)
		obs(t, projectAt(out.C, sc.Ms(t)), "instant")
	}
	// sub-windows on the same grid
	if n >= 3 {
		r := rand.New(rand.NewSource(flagSeed*7 + int64(len(q))))
		subs := [][2]int64{{1, n - 1}, {0, n - 2}}
		if n > 12 {
			subs = append(subs, [2]int64{9, n - 1}, [2]int64{10, n - 1}, [2]int64{r.Int63n(n / 2), n/2 + r.Int63n(n/2)})
		}
		for _, ab := range subs {
			wsc := *sc
			wsc.Start, wsc.End = sc.Start+ab[0]*sc.Step, sc.Start+ab[1]*sc.Step
			em(vt.Ev{"ev": "cfg", "cfg": fmt.Sprintf("window=[%d,%d]/%d", wsc.Start, wsc.End, wsc.Step)})
			out := run.Exec(context.Background(), eng, st.Clone(), &wsc, false)
			for i := ab[0]; i <= ab[1]; i++ {
				t := sc.Start + i*sc.Step
				obs(t, projectAt(out.C, sc.Ms(t)), "subwindow")
			}
		}
	}
	em(vt.Ev{"ev": "end"})
}
