package main

import (
	"bytes"
	"context"
	"fmt"
	"hash/fnv"
	"math/rand"
	"os"
	"regexp"
	"runtime"
	"strings"
	"sync"
	"time"

	"github.com/thanos-community/promql-engine/api"
	"github.com/thanos-community/promql-engine/engine"
	"github.com/thanos-community/promql-engine/execution/model"

	"verifharness/run"
	"verifharness/scn"
	"verifharness/vstore"
	"verifharness/vt"
)

func init() {
	families["concurrent"] = famConcurrent
}

var raceOffset int64

var raceFrame = regexp.MustCompile(`(?m)^\s+(\S*promql-engine/\S*)\(\)\n\s+(\S+\.go:\d+)`)

// newRaces returns the engine-side locations of the data races the race detector reported
// since the last call (GORACE=log_path=<p> makes the runtime append to <p>.<pid>).
func newRaces() []string {
	p := os.Getenv("VREPLAY_RACE_LOG")
	if p == "" {
		return nil
	}
	data, err := os.ReadFile(fmt.Sprintf("%s.%d", p, os.Getpid()))
	if err != nil || int64(len(data)) <= raceOffset {
		return nil
	}
	fresh := data[raceOffset:]
	raceOffset = int64(len(data))
	seen := map[string]bool{}
	var out []string
	for _, blk := range bytes.Split(fresh, []byte("WARNING: DATA RACE")) {
		m := raceFrame.FindSubmatch(blk)
		if m == nil {
			continue
		}
		fn := string(m[1])
		if i := strings.LastIndex(fn, "/"); i >= 0 {
			fn = fn[i+1:]
		}
		loc := string(m[2])
		if i := strings.LastIndex(loc, "/"); i >= 0 {
			loc = loc[i+1:]
		}
		w := fn + " " + loc
		if !seen[w] {
			seen[w] = true
			out = append(out, w)
		}
	}
	return out
}

// famConcurrent (C12): K clients execute queries concurrently on one engine over one storage,
// under seeded scheduling perturbation; each result must equal the result of the same query
// run alone; data races reported by the race detector (when built with -race) become events.
func famConcurrent(sc *scn.Scenario, em func(vt.Ev)) {
	runtime.GOMAXPROCS(sc.CfgInt("procs", 8))
	em(vt.Ev{"ev": "sc", "id": sc.ID, "fam": sc.Fam, "q": "concurrent", "start": sc.Start, "end": sc.End, "step": sc.Step, "lb": sc.LB, "qlb": 0,
		"tickms": sc.TickMs, "data": []any{}, "cfg": fmt.Sprint(sc.Cfg["mix"], " k=", sc.Cfg["k"])})
	var basket []string
	for _, x := range cfgList(sc.Cfg, "basket") {
		basket = append(basket, x.(string))
	}
	k, rounds, first := sc.CfgInt("k", 2), sc.CfgInt("rounds", 1), sc.CfgInt("first", 1)
	mix := sc.CfgStr("mix", "same")
	stagger, _ := sc.Cfg["stagger"].(bool)
	native := 13 // the first 13 queries of the basket are evaluated natively
	queryOf := func(client int) int {
		switch mix {
		case "same", "samecancel":
			return (first - 1) % native
		case "samefallback":
			return native + (first-1)%(len(basket)-native)
		case "distfallback":
			// the last four queries of the basket and some native ones
			if client%3 == 2 {
				return (first - 1 + client) % native
			}
			return len(basket) - 4 + (first-1+client)%4
		case "basket", "dist", "cancelrace":
			return (first - 1 + client) % native
		default: // fallback: native and fallback mixed
			return (first - 1 + client*5) % len(basket)
		}
	}
	// every client asks with a lookback delta of its own (none, 1 tick, 4 ticks: promql.QueryOpts are per query),
	// and every other scenario gives the engines the list of all optimizers explicitly
	qlbOf := func(client int) int64 {
		if mix == "samecancel" {
			return 0 // identical in every respect
		}
		return []int64{0, 1, 4}[client%3]
	}
	optimizers := "default"
	if h := fnv.New32a(); true {
		h.Write([]byte(sc.ID))
		if (h.Sum32()>>4)%2 == 0 {
			optimizers = "all"
		}
	}
	series := run.SeriesOf(sc, sc.Data)
	store := vstore.New(series)
	var eng run.QueryEngine
	soloEngine := func() run.QueryEngine { return engine.New(run.EngineOpts(sc, optimizers, false, nil)) }
	if mix == "dist" || mix == "distfallback" {
		var remotes []api.RemoteEngine
		for e := 0; e < 2; e++ {
			var part []vstore.Series
			for j, s := range series {
				if j%2 == e {
					part = append(part, s)
				}
			}
			remotes = append(remotes, engine.NewLocalEngine(run.EngineOpts(sc, "default", false, nil), vstore.New(part)))
		}
		eng = engine.NewDistributedEngine(run.EngineOpts(sc, optimizers, false, nil), api.NewStaticEndpoints(remotes))
	} else {
		eng = engine.New(run.EngineOpts(sc, optimizers, false, nil))
	}
	cl := newClassifier()
	newRaces() // discard what earlier scenarios left
	// solo runs: the same kind of engine over a deep copy of the data, so that "alone" does not
	// touch the storage the concurrent clients share
	soloSeries := make([]vstore.Series, len(series))
	for i, s := range series {
		soloSeries[i] = vstore.Series{L: s.L.Copy(), T: s.T, V: s.V}
	}
	soloStore := vstore.New(soloSeries)
	solo := map[string]bool{}
	for c := 0; c < k; c++ {
		qi := queryOf(c)
		key := fmt.Sprintf("q%d/lb%d", qi+1, qlbOf(c))
		if solo[key] {
			continue
		}
		solo[key] = true
		qs := *sc
		qs.Q = basket[qi]
		qs.QLB = qlbOf(c)
		out := run.Exec(context.Background(), soloEngine(), soloStore, &qs, false)
		o := wholeResult(out.C)
		if out.CreateErr != nil {
			o = Obs{Err: true}
		}
		em(vt.Ev{"ev": "cfg", "cfg": "solo " + basket[qi]})
		em(vt.Ev{"ev": "obs", "key": key, "cls": cl.class(key, o), "src": "solo", "desc": o.String()})
	}
	// concurrent runs
	var mu sync.Mutex
	pr := rand.New(rand.NewSource(flagSeed*104729 + int64(k)*31 + int64(first)))
	yield := func(string) {
		mu.Lock()
		x := pr.Intn(12)
		mu.Unlock()
		switch {
		case x < 4:
			runtime.Gosched()
		case x == 4:
			time.Sleep(time.Duration(5+x) * time.Microsecond)
		}
	}
	model.SetVerifYield(yield)
	store.Perturb = func(int64) { yield("") }
	type res struct {
		client, round, qi int
		o                 Obs
	}
	results := make(chan res, k*rounds)
	var wg sync.WaitGroup
	start := make(chan struct{})
	for c := 0; c < k; c++ {
		wg.Add(1)
		go func(c int) {
			defer wg.Done()
			<-start
			if stagger {
				time.Sleep(time.Duration(c*7) * time.Microsecond)
			}
			for r := 0; r < rounds; r++ {
				qi := queryOf(c)
				qs := *sc
				qs.Q = basket[qi]
				qs.QLB = qlbOf(c)
				if mix == "cancelrace" || (mix == "samecancel" && c%2 == 0) {
					// Cancel() from another goroutine while Exec runs; a cancelled run has no result to compare
					// (samecancel: every client runs the very same query; the even ones cancel theirs, which is
					// no business of the odd ones)
					if qry, err := run.Create(eng, store, &qs); err == nil {
						done := make(chan struct{})
						go func() { time.Sleep(time.Duration(c%5) * 10 * time.Microsecond); qry.Cancel(); close(done) }()
						rr := qry.Exec(context.Background())
						<-done
						if rr.Err == nil {
							results <- res{c, r, qi, wholeResult(run.Canon(rr))}
						}
						qry.Close()
					}
					continue
				}
				out := run.Exec(context.Background(), eng, store, &qs, false)
				o := wholeResult(out.C)
				if out.CreateErr != nil {
					o = Obs{Err: true}
				}
				results <- res{c, r, qi, o}
			}
		}(c)
	}
	close(start)
	wg.Wait()
	close(results)
	model.SetVerifYield(nil)
	store.Perturb = nil
	em(vt.Ev{"ev": "cfg", "cfg": fmt.Sprintf("concurrent k=%d mix=%s rounds=%d stagger=%v", k, mix, rounds, stagger)})
	for r := range results {
		key := fmt.Sprintf("q%d/lb%d", r.qi+1, qlbOf(r.client))
		em(vt.Ev{"ev": "obs", "key": key, "cls": cl.class(key, r.o), "src": fmt.Sprintf("client%d.%d", r.client, r.round), "desc": r.o.String()})
	}
	settle(baseGoroutines)
	for _, w := range newRaces() {
		em(vt.Ev{"ev": "race", "where": w})
	}
	em(vt.Ev{"ev": "end"})
}
