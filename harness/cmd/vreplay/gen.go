package main

import (
	"encoding/json"
	"flag"
	"fmt"
	"math/rand"
	"os"

	"verifharness/scn"
)

// gen: seeded random scenarios, larger than the scopes TLC enumerates. They carry no
// predicted outcome: the trace specification computes it (PromQLRef) during validation.
//
//	vreplay gen -fam compose -n 2000 -seed 7 > scenarios.jsonl
func cmdGen(args []string) {
	fs := flag.NewFlagSet("gen", flag.ExitOnError)
	fam := fs.String("fam", "compose", "generator")
	n := fs.Int("n", 1000, "number of scenarios")
	seed := fs.Int64("seed", 1, "seed")
	tag := fs.String("tag", "C01", "family tag (property id)")
	fs.Parse(args)
	r := rand.New(rand.NewSource(*seed))
	enc := json.NewEncoder(os.Stdout)
	for i := 0; i < *n; i++ {
		var sc *scn.Scenario
		switch *fam {
		case "compose":
			sc = genCompose(r)
		default:
			fmt.Fprintln(os.Stderr, "unknown generator", *fam)
			os.Exit(2)
		}
		sc.ID = fmt.Sprintf("%s-rnd%d-%05d", *tag, *seed, i)
		sc.Fam = *tag
		enc.Encode(sc)
	}
}

type gctx struct {
	r    *rand.Rand
	plan []scn.Node
	span int64
}

func blankNode(op string) scn.Node {
	return scn.Node{Op: op, M: []scn.Matcher{}, Args: []int{}, Grp: []string{}, ML: []string{}, Inc: []string{}, Atk: "none", Card: "1:1"}
}

func (g *gctx) add(n scn.Node) int { g.plan = append(g.plan, n); return len(g.plan) }
func (g *gctx) pick(xs ...string) string {
	return xs[g.r.Intn(len(xs))]
}

func (g *gctx) matchers() []scn.Matcher {
	name := g.pick("m", "m", "m", "n")
	ms := []scn.Matcher{{N: "__name__", T: "=", V: name, Acc: []string{}}}
	switch g.r.Intn(8) {
	case 0:
		ms = append(ms, scn.Matcher{N: "a", T: "=", V: g.pick("x", "y"), Acc: []string{}})
	case 1:
		ms = append(ms, scn.Matcher{N: "b", T: "!=", V: g.pick("1", "2", ""), Acc: []string{}})
	case 2:
		ms = append(ms, scn.Matcher{N: "a", T: "=~", V: "x|z", Acc: []string{}})
	case 3:
		ms = append(ms, scn.Matcher{N: "b", T: "=", V: "", Acc: []string{}})
	case 4:
		ms = append(ms, scn.Matcher{N: "a", T: "!~", V: "y.*", Acc: []string{}})
	}
	return ms
}

func (g *gctx) selMods(n *scn.Node) {
	switch g.r.Intn(8) {
	case 0:
		n.Off = int64(g.r.Intn(4) + 1)
	case 1:
		n.Off = -int64(g.r.Intn(3) + 1)
	case 2:
		n.Atk, n.At = "lit", int64(g.r.Intn(int(g.span)))
	case 3:
		n.Atk = g.pick("start", "end")
	}
}

var rangeFns = []string{"rate", "increase", "delta", "irate", "idelta", "deriv", "changes", "resets", "sum_over_time",
	"count_over_time", "min_over_time", "max_over_time", "avg_over_time", "last_over_time", "present_over_time",
	"stddev_over_time", "stdvar_over_time"}
var mathFns = []string{"abs", "ceil", "floor", "exp", "sqrt", "ln", "log2", "sin", "cos", "atan", "sinh", "deg", "rad"}
var aggs = []string{"sum", "min", "max", "count", "group", "avg", "stddev", "stdvar"}
var arith = []string{"+", "-", "*", "/", "%", "^"}
var cmps = []string{"==", "!=", "<", ">", "<=", ">="}

func (g *gctx) grouping() (bool, []string) {
	by := g.r.Intn(2) == 0
	switch g.r.Intn(6) {
	case 0:
		return by, []string{}
	case 1:
		return by, []string{"a"}
	case 2:
		return by, []string{"b"}
	case 3:
		return by, []string{"a", "b"}
	case 4:
		return by, []string{"Z", "a"}
	}
	return by, []string{"__name__"}
}

func (g *gctx) scalar(d int) int {
	switch k := g.r.Intn(7); {
	case k <= 1 || d <= 0 && k <= 4:
		n := blankNode("num")
		n.V = int64(g.r.Intn(9) - 2)
		return g.add(n)
	case k == 2:
		n := blankNode("fn")
		n.Fn = "time"
		return g.add(n)
	case k == 3 && d > 0:
		c := g.vec(d - 1)
		n := blankNode("fn")
		n.Fn, n.Args = "scalar", []int{c}
		return g.add(n)
	case k == 4 && d > 0:
		l, r := g.scalar(d-1), g.scalar(d-1)
		n := blankNode("bin")
		n.Fn, n.Args = g.pick(arith...), []int{l, r}
		return g.add(n)
	case k == 5 && d > 0:
		c := g.scalar(d - 1)
		n := blankNode("neg")
		n.Args = []int{c}
		return g.add(n)
	}
	c := g.add(func() scn.Node {
		n := blankNode("sel")
		n.M = []scn.Matcher{{N: "__name__", T: "=", V: "p", Acc: []string{}}}
		return n
	}())
	n := blankNode("fn")
	n.Fn, n.Args = "scalar", []int{c}
	return g.add(n)
}

func (g *gctx) vec(d int) int {
	if d <= 0 || g.r.Intn(6) == 0 {
		if g.r.Intn(3) == 0 {
			n := blankNode("rfn")
			n.Fn = rangeFns[g.r.Intn(len(rangeFns))]
			n.M = g.matchers()
			n.Rng = int64(g.r.Intn(6) + 1)
			g.selMods(&n)
			return g.add(n)
		}
		n := blankNode("sel")
		n.M = g.matchers()
		g.selMods(&n)
		return g.add(n)
	}
	switch g.r.Intn(12) {
	case 0:
		c := g.vec(d - 1)
		n := blankNode("fn")
		n.Fn, n.Args = mathFns[g.r.Intn(len(mathFns))], []int{c}
		return g.add(n)
	case 1:
		c := g.vec(d - 1)
		n := blankNode("neg")
		n.Args = []int{c}
		return g.add(n)
	case 2, 3:
		c := g.vec(d - 1)
		n := blankNode("agg")
		n.Fn, n.Args = aggs[g.r.Intn(len(aggs))], []int{c}
		n.By, n.Grp = g.grouping()
		return g.add(n)
	case 4:
		p := g.scalar(d - 1)
		c := g.vec(d - 1)
		n := blankNode("agg")
		n.Fn, n.Args = g.pick("topk", "bottomk"), []int{p, c}
		n.By, n.Grp = g.grouping()
		return g.add(n)
	case 5:
		p := g.add(func() scn.Node { n := blankNode("num"); n.VS = g.pick("0.5", "0.9", "0", "1", "1.5"); return n }())
		c := g.vec(d - 1)
		n := blankNode("agg")
		n.Fn, n.Args = "quantile", []int{p, c}
		n.By, n.Grp = g.grouping()
		return g.add(n)
	case 6:
		l, r := g.vec(d-1), g.scalar(d-1)
		if g.r.Intn(2) == 0 {
			l, r = r, l
		}
		n := blankNode("bin")
		n.Args = []int{l, r}
		if g.r.Intn(2) == 0 {
			n.Fn = g.pick(arith...)
		} else {
			n.Fn = g.pick(cmps...)
			n.Bool = g.r.Intn(3) == 0
		}
		return g.add(n)
	case 7, 8:
		l, r := g.vec(d-1), g.vec(d-1)
		n := blankNode("bin")
		n.Args = []int{l, r}
		if g.r.Intn(2) == 0 {
			n.Fn = g.pick(arith...)
		} else {
			n.Fn = g.pick(cmps...)
			n.Bool = g.r.Intn(3) == 0
		}
		switch g.r.Intn(6) {
		case 0:
			n.On, n.ML = true, []string{"a"}
		case 1:
			n.On, n.ML = true, []string{"a", "b"}
		case 2:
			n.ML = []string{"b"}
		case 3:
			n.On, n.ML, n.Card = true, []string{"a"}, "N:1"
		case 4:
			n.ML, n.Card, n.Inc = []string{"b", "Z"}, "N:1", []string{"Z"}
		}
		return g.add(n)
	case 9:
		c, s := g.vec(d-1), g.scalar(d-1)
		n := blankNode("fn")
		n.Fn, n.Args = g.pick("clamp_min", "clamp_max"), []int{c, s}
		return g.add(n)
	case 10:
		c := g.vec(d - 1)
		n := blankNode("fn")
		n.Fn, n.Args = "timestamp", []int{c}
		return g.add(n)
	}
	c := g.vec(d - 1)
	n := blankNode("paren")
	n.Args = []int{c}
	return g.add(n)
}

// random dataset: irregular spacing, gaps, staleness markers, NaN/Inf, counter resets,
// labels absent on some series, an upper-case label.
func genData(r *rand.Rand, span int64) []scn.DSeries {
	lsets := [][][]string{
		{{"__name__", "m"}, {"a", "x"}, {"b", "1"}},
		{{"__name__", "m"}, {"a", "x"}, {"b", "2"}},
		{{"__name__", "m"}, {"a", "y"}},
		{{"Z", "up"}, {"__name__", "m"}, {"a", "z"}, {"b", "1"}},
		{{"__name__", "m"}, {"b", "2"}},
		{{"__name__", "n"}, {"a", "x"}, {"b", "1"}},
		{{"__name__", "n"}, {"a", "y"}},
		{{"__name__", "n"}, {"a", "x"}},
	}
	var out []scn.DSeries
	for j, ls := range lsets {
		if r.Intn(5) == 0 {
			continue
		}
		d := scn.DSeries{LS: ls, Smp: []scn.Sample{}}
		density := []int{1, 2, 3, 5}[r.Intn(4)]
		from, to := int64(0), span
		switch r.Intn(4) {
		case 0:
			from = int64(r.Intn(int(span) / 2))
		case 1:
			to = span - int64(r.Intn(int(span)/2))
		}
		v := int64(r.Intn(20))
		for t := from; t < to; t++ {
			if r.Intn(density) != 0 {
				continue
			}
			k := "f"
			switch x := r.Intn(40); {
			case x == 0:
				k = "s"
			case x == 1:
				k = "nan"
			case x == 2 && j%3 == 0:
				k = "pinf"
			}
			switch r.Intn(6) {
			case 0:
				v = int64(r.Intn(5)) // reset
			case 1:
			default:
				v += int64(r.Intn(7))
			}
			if j%4 == 3 {
				v = int64(r.Intn(9)) - 4
			}
			d.Smp = append(d.Smp, scn.Sample{T: t, K: k, V: v})
		}
		out = append(out, d)
	}
	// one dataset in fifteen is wide: 40..120 more series of m (several per group, more than one batch of
	// series per shard), dense and regular
	if r.Intn(15) == 0 {
		n := 40 + r.Intn(81)
		for k := 0; k < n; k++ {
			d := scn.DSeries{LS: [][]string{{"__name__", "m"}, {"a", fmt.Sprintf("w%d", k%7)}, {"b", fmt.Sprintf("%d", 100+k)}}, Smp: []scn.Sample{}}
			from := int64(0)
			if k%9 == 0 {
				from = span / 3
			}
			for t := from; t < span; t++ {
				if k%5 == 0 && t%4 == 3 {
					continue
				}
				d.Smp = append(d.Smp, scn.Sample{T: t, K: "f", V: int64((k*7+int(t))%23) - 3})
			}
			out = append(out, d)
		}
	}
	p := scn.DSeries{LS: [][]string{{"__name__", "p"}}, Smp: []scn.Sample{}}
	for t := int64(0); t < span; t++ {
		if r.Intn(3) != 0 {
			p.Smp = append(p.Smp, scn.Sample{T: t, K: "f", V: int64(r.Intn(4))})
		}
	}
	return append(out, p)
}

func genCompose(r *rand.Rand) *scn.Scenario {
	span := int64(30 + r.Intn(30))
	g := &gctx{r: r, span: span}
	depth := 1 + r.Intn(3)
	if r.Intn(6) == 0 {
		g.scalar(depth)
	} else {
		g.vec(depth)
	}
	sc := &scn.Scenario{TickMs: []int64{1000, 1000, 500, 15000}[r.Intn(4)], Data: genData(r, span), Plan: g.plan}
	sc.LB = int64(1 + r.Intn(6))
	if r.Intn(5) == 0 {
		sc.QLB = int64(1 + r.Intn(4))
	}
	sc.Start = int64(r.Intn(int(span) / 2))
	if r.Intn(4) == 0 {
		sc.Step, sc.End = 0, sc.Start
	} else {
		sc.Step = int64(1 + r.Intn(5))
		n := int64([]int{1, 2, 5, 9, 10, 11, 12, 20, 21, 25, 35}[r.Intn(11)]) // 1: a range query of one step
		sc.End = sc.Start + (n-1)*sc.Step
		if sc.Step >= 2 && r.Intn(3) == 0 {
			sc.End += 1 + int64(r.Intn(int(sc.Step)-1)) // the window ends after its last step
		}
	}
	return sc
}
