package main

import (
	"context"
	"fmt"
	"math/rand"
	"runtime"
	"sync"
	"time"

	"github.com/prometheus/prometheus/model/labels"
	"github.com/prometheus/prometheus/promql/parser"

	"github.com/thanos-community/promql-engine/engine"
	"github.com/thanos-community/promql-engine/execution/model"

	"verifharness/run"
	"verifharness/scn"
	"verifharness/vstore"
	"verifharness/vt"
)

func init() {
	families["config"] = famConfig
}

var procsList = []int{1, 2, 3, 4, 5, 6, 8, 12, 16}

// famConfig (C11): the result is a function of the query, the matching samples, the window and
// the options only: not of GOMAXPROCS (shard count), goroutine interleaving, the order in which
// the storage returns series, non-matching series in the storage, or repetition.
func famConfig(sc *scn.Scenario, em func(vt.Ev)) {
	q := sc.Query()
	expr, err := parser.ParseExpr(q)
	if err != nil {
		em(vt.Ev{"ev": "skip", "why": "parse", "q": q})
		return
	}
	em(header(sc, expr))
	cl := newClassifier()
	base := run.SeriesOf(sc, sc.Data)
	r := rand.New(rand.NewSource(flagSeed*977 + int64(len(q))*13 + int64(len(base))))
	exec := func(series []vstore.Series, procs int, perturb bool, cfg string) bool {
		runtime.GOMAXPROCS(procs)
		st := vstore.New(series)
		if perturb {
			var mu sync.Mutex
			pr := rand.New(rand.NewSource(r.Int63()))
			yield := func() {
				mu.Lock()
				x := pr.Intn(10)
				mu.Unlock()
				switch {
				case x < 4:
					runtime.Gosched()
				case x == 4:
					time.Sleep(time.Duration(10+pr.Intn(40)) * time.Microsecond)
				}
			}
			st.Perturb = func(int64) { yield() }
			model.SetVerifYield(func(string) { yield() })
			defer model.SetVerifYield(nil)
		}
		eng := engine.New(run.EngineOpts(sc, "default", true, nil))
		out := run.Exec(context.Background(), eng, st, sc, false)
		if out.CreateErr != nil {
			return false
		}
		em(vt.Ev{"ev": "cfg", "cfg": cfg})
		o := wholeResult(out.C)
		em(vt.Ev{"ev": "obs", "key": "result", "cls": cl.class("result", o), "src": cfg, "desc": o.String() + " " + out.C.ErrMsg})
		return true
	}
	if !exec(base, 4, false, "procs=4") {
		em(vt.Ev{"ev": "skip", "why": "not native", "q": q})
		em(vt.Ev{"ev": "end"})
		return
	}
	permute := func() []vstore.Series {
		p := append([]vstore.Series{}, base...)
		r.Shuffle(len(p), func(i, j int) { p[i], p[j] = p[j], p[i] })
		return p
	}
	decoys := func(s []vstore.Series) []vstore.Series {
		out := append([]vstore.Series{}, s...)
		for i := 0; i < 5; i++ {
			d := vstore.Series{L: labels.FromStrings("__name__", fmt.Sprintf("zz_decoy_%d", i), "a", "x", "i", fmt.Sprint(i)), T: []int64{sc.Abs(0), sc.Abs(3), sc.Abs(7)}, V: []float64{1e6, 2e6, 3e6}}
			pos := r.Intn(len(out) + 1)
			out = append(out[:pos], append([]vstore.Series{d}, out[pos:]...)...)
		}
		return out
	}
	for _, p := range procsList {
		exec(base, p, false, fmt.Sprintf("procs=%d", p))
	}
	for k := 0; k < 2; k++ {
		p := procsList[r.Intn(len(procsList))]
		exec(permute(), p, false, fmt.Sprintf("procs=%d permuted", p))
	}
	exec(decoys(base), 4, false, "procs=4 decoys")
	exec(decoys(permute()), procsList[r.Intn(len(procsList))], true, "permuted decoys yields")
	for k := 0; k < 3; k++ {
		p := []int{4, 8, 16, 6}[r.Intn(4)]
		exec(base, p, true, fmt.Sprintf("procs=%d yields rep=%d", p, k))
	}
	runtime.GOMAXPROCS(4)
	em(vt.Ev{"ev": "end"})
}
