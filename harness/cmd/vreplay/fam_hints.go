package main

import (
	"context"
	"fmt"
	"runtime"
	"sort"
	"strings"

	"github.com/prometheus/prometheus/promql"
	"github.com/prometheus/prometheus/promql/parser"

	"github.com/thanos-community/promql-engine/engine"

	"verifharness/run"
	"verifharness/scn"
	"verifharness/vstore"
	"verifharness/vt"
)

func init() {
	families["hints"] = famHints
}

// hintKey describes a select without the querier range (the property is about the hints).
func hintKey(r vstore.SelectRec) string {
	// the grouping labels are compared as a set (the reference hands them over in source
	// order, before it sorts them for its own evaluation)
	g := append([]string{}, r.Grouping...)
	sort.Strings(g)
	r.Grouping = g
	return fmt.Sprintf("%v|h=%d..%d|step=%d|range=%d|func=%s|by=%v|grp=%v", r.Matchers, r.Start, r.End, r.Step, r.Range, r.Func, r.By, r.Grouping)
}

func hintSet(st *vstore.Store) []string {
	m := map[string]bool{}
	for _, r := range st.SelectRecs() {
		m[hintKey(r)] = true
	}
	var out []string
	for k := range m {
		out = append(out, k)
	}
	sort.Strings(out)
	return out
}

// famHints (C16): (equality) without plan rewrites the set of selects (matchers, hinted range,
// step, range, function, grouping) the engine issues equals the reference engine's; (sufficiency)
// for every optimizer set the result is unchanged when the storage omits every sample outside
// [hints.Start, hints.End] of the respective select.
func famHints(sc *scn.Scenario, em func(vt.Ev)) {
	q := sc.Query()
	expr, err := parser.ParseExpr(q)
	if err != nil {
		em(vt.Ev{"ev": "skip", "why": "parse", "q": q})
		return
	}
	runtime.GOMAXPROCS(sc.Procs())
	em(header(sc, expr))
	cl := newClassifier()
	strClass := map[string]int{}
	classOf := func(s string) int {
		if c, ok := strClass[s]; ok {
			return c
		}
		strClass[s] = len(strClass)
		return strClass[s]
	}
	// equality half
	est := run.Store(sc)
	eng := engine.New(run.EngineOpts(sc, "none", true, nil))
	out := run.Exec(context.Background(), eng, est, sc, false)
	if out.CreateErr != nil {
		em(vt.Ev{"ev": "skip", "why": "not native", "q": q})
		em(vt.Ev{"ev": "end"})
		return
	}
	rst := run.Store(sc)
	ref := promql.NewEngine(run.PromOpts(sc.Dur(sc.LB)))
	rout := run.Exec(context.Background(), ref, rst, sc, true)
	// a failing query stops early in either engine: which selects were issued before the
	// failure is not what the property is about
	failed := out.C.Err != "" || rout.C.Err != ""
	eh, rh := strings.Join(hintSet(est), "\n"), strings.Join(hintSet(rst), "\n")
	diff := ""
	if eh != rh {
		diff = "engine: " + strings.ReplaceAll(eh, "\n", " ; ") + " || reference: " + strings.ReplaceAll(rh, "\n", " ; ")
		if len(diff) > 700 {
			diff = diff[:700]
		}
	}
	if !failed {
		em(vt.Ev{"ev": "cfg", "cfg": "selects of the reference engine"})
		em(vt.Ev{"ev": "obs", "key": "selects", "cls": classOf(rh), "src": "reference", "desc": ""})
		em(vt.Ev{"ev": "cfg", "cfg": "selects of the engine, no optimizers"})
		em(vt.Ev{"ev": "obs", "key": "selects", "cls": classOf(eh), "src": "engine", "desc": diff})
	}
	// sufficiency half
	for _, set := range []string{"none", "default", "all"} {
		for _, prune := range []bool{false, true} {
			st := run.Store(sc)
			st.Prune = prune
			e2 := engine.New(run.EngineOpts(sc, set, true, nil))
			o2 := run.Exec(context.Background(), e2, st, sc, false)
			if o2.CreateErr != nil {
				continue
			}
			em(vt.Ev{"ev": "cfg", "cfg": fmt.Sprintf("optimizers=%s prune=%v", set, prune)})
			o := wholeResult(o2.C)
			em(vt.Ev{"ev": "obs", "key": "result/" + set, "cls": cl.class("result/"+set, o), "src": fmt.Sprintf("prune=%v", prune), "desc": o.String()})
		}
	}
	em(vt.Ev{"ev": "end"})
}
