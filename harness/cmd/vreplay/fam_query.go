package main

import (
	"context"
	"errors"
	"math"
	"os"
	"runtime"
	"sort"
	"time"

	"github.com/prometheus/prometheus/promql"
	"github.com/prometheus/prometheus/promql/parser"

	"github.com/thanos-community/promql-engine/api"
	"github.com/thanos-community/promql-engine/engine"
	"github.com/thanos-community/promql-engine/execution/model"
	"github.com/thanos-community/promql-engine/execution/parse"

	"verifharness/optrace"
	"verifharness/run"
	"verifharness/scn"
	"verifharness/vstore"
	"verifharness/vt"
)

var opSink = &vt.Sink{}

// poisonNaN is a quiet NaN with a recognisable payload.
var poisonNaN = math.Float64frombits(0x7ff8dead0000beef)

func setup() {
	optrace.Install()
	optrace.Disable()
	if os.Getenv("VREPLAY_POISON") != "0" {
		// hook H3: a buffer on its way back into a vector pool is overwritten. By the pool's protocol
		// nobody may look at it any more - its next owner may be another goroutine (the producer behind
		// a concurrency operator, a worker) that writes to it at once; the overwrite plays that owner.
		// Code that still reads the buffer then sees impossible sample IDs and a NaN instead of
		// (in most schedules) its old contents, so a use after put shows in the result.
		model.SetVerifPoolPut(func(ids []uint64, samples []float64, batch []model.StepVector) {
			for i := range ids {
				ids[i] = math.MaxUint64 >> 1
			}
			for i := range samples {
				samples[i] = poisonNaN
			}
			for i := range batch {
				batch[i] = model.StepVector{T: math.MinInt64}
			}
		})
	}
}

func init() {
	families["query"] = func(sc *scn.Scenario, em func(vt.Ev)) { famQuery(sc, em, false) }
	// the same comparison with the distributed engine (two remote engines holding the series of even
	// and of odd index, local queryable = union) in the place of the plain engine
	families["querydist"] = func(sc *scn.Scenario, em func(vt.Ev)) { famQuery(sc, em, true) }
	families["apiwin"] = famAPIWindow
}

// universe of label values in the dataset (plus ""), for regex acceptance sets
func universe(sc *scn.Scenario) []string {
	m := map[string]bool{"": true}
	for _, d := range sc.Data {
		for _, p := range d.LS {
			m[p[1]] = true
		}
	}
	var out []string
	for k := range m {
		out = append(out, k)
	}
	sort.Strings(out)
	return out
}

// header builds the "sc" event; it (re)derives the plan from the parsed query so that the
// trace always carries the plan of the text that was actually executed.
func header(sc *scn.Scenario, expr parser.Expr) vt.Ev {
	nodes, ok, why := scn.FromExpr(sc, expr, universe(sc))
	if !ok {
		nodes = []scn.Node{}
	}
	data := sc.Data
	if data == nil {
		data = []scn.DSeries{}
	}
	for i := range data {
		if data[i].LS == nil {
			data[i].LS = [][]string{}
		}
		if data[i].Smp == nil {
			data[i].Smp = []scn.Sample{}
		}
	}
	return vt.Ev{"ev": "sc", "id": sc.ID, "sc": sc.ID, "fam": sc.Fam, "tickms": sc.TickMs, "data": data, "plan": nodes,
		"spec": ok, "nospec": why, "q": sc.Query(), "start": sc.Start, "end": sc.End, "step": sc.Step,
		"lb": sc.LB, "qlb": sc.QLB, "kind": run.ExprKind(expr, sc.IsInstant()), "base": sc.Base() / 1000}
}

func unsupported(err error) bool {
	return errors.Is(err, parse.ErrNotSupportedExpr) || errors.Is(err, parse.ErrNotImplemented)
}

// famQuery: engine (fallback disabled) versus the reference engine on the same storage.
func famQuery(sc *scn.Scenario, em func(vt.Ev), distributed bool) {
	q := sc.Query()
	expr, err := parser.ParseExpr(q)
	if err != nil {
		em(vt.Ev{"ev": "skip", "why": "parse: " + err.Error(), "q": q})
		return
	}
	runtime.GOMAXPROCS(sc.Procs())
	em(header(sc, expr))
	if flagOps {
		optrace.Configure(optrace.Mode{Record: true}, opSink)
	}
	var eng run.QueryEngine = engine.New(run.EngineOpts(sc, sc.CfgStr("opt", "default"), true, nil))
	if distributed {
		all := run.SeriesOf(sc, sc.Data)
		var remotes []api.RemoteEngine
		for e := 0; e < 2; e++ {
			var part []vstore.Series
			for j, s := range all {
				if j%2 == e {
					part = append(part, s)
				}
			}
			remotes = append(remotes, engine.NewLocalEngine(run.EngineOpts(sc, "default", false, nil), vstore.New(part)))
		}
		eng = engine.NewDistributedEngine(run.EngineOpts(sc, "default", true, nil), api.NewStaticEndpoints(remotes))
	}
	out := run.Exec(context.Background(), eng, run.Store(sc), sc, false)
	if flagOps {
		optrace.Disable()
		settle(baseGoroutines)
		for _, e := range drainOps(opSink) {
			em(e)
		}
	}
	if out.CreateErr != nil {
		why := "create: " + out.CreateErr.Error()
		if unsupported(out.CreateErr) {
			why = "not native"
		}
		em(vt.Ev{"ev": "skip", "why": why, "q": q})
		em(vt.Ev{"ev": "end"})
		return
	}
	ref := promql.NewEngine(run.PromOpts(sc.Dur(sc.LB)))
	rout := run.Exec(context.Background(), ref, run.Store(sc), sc, true)
	em(vt.Ev{"ev": "res", "who": "eng", "r": out.C})
	em(vt.Ev{"ev": "res", "who": "ref", "r": rout.C})
	d := run.Compare(out.C, rout.C)
	if !d.Equal && run.PreEpochSubMilli(sc) {
		d.Shape += ".preepoch-subms"
	}
	em(vt.Ev{"ev": "cmp", "a": "eng", "b": "ref", "d": d})
	em(vt.Ev{"ev": "end"})
}

// famAPIWindow (C13): the scenario's query through the engine's API with an unusual window (a step
// below a millisecond, start after end - cfg stepns / swap). Only the engine runs, under a
// deadline; what is decided is that the process survives and Exec returns.
func famAPIWindow(sc *scn.Scenario, em func(vt.Ev)) {
	q := sc.Query()
	expr, err := parser.ParseExpr(q)
	if err != nil {
		em(vt.Ev{"ev": "skip", "why": "parse: " + err.Error(), "q": q})
		return
	}
	runtime.GOMAXPROCS(sc.Procs())
	h := header(sc, expr)
	h["spec"], h["nospec"] = false, "unusual window"
	em(h)
	for _, fb := range []bool{true, false} {
		eng := engine.New(run.EngineOpts(sc, "default", fb, nil))
		ctx, cancel := context.WithTimeout(context.Background(), 3*time.Second)
		out := run.Exec(ctx, eng, run.Store(sc), sc, false)
		cancel()
		_ = out
	}
	em(vt.Ev{"ev": "skip", "why": "unusual window: survival only", "q": q})
	em(vt.Ev{"ev": "end"})
}
