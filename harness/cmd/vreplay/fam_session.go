package main

import (
	"context"
	"fmt"
	"hash/fnv"
	"runtime"
	"runtime/debug"
	"time"

	"github.com/prometheus/prometheus/model/labels"
	"github.com/prometheus/prometheus/promql"

	"github.com/thanos-community/promql-engine/api"
	"github.com/thanos-community/promql-engine/engine"

	"verifharness/run"
	"verifharness/scn"
	"verifharness/vstore"
	"verifharness/vt"
)

func init() {
	families["session"] = famSession
}

// currentEndpoints is an api.RemoteEndpoints whose set of engines is asked for every time.
type currentEndpoints func() []api.RemoteEngine

func (c currentEndpoints) Engines() []api.RemoteEngine { return c() }

type histOp struct {
	Op   string
	Q    int
	W    int
	Kind string
}

func cfgList(m map[string]any, k string) []any {
	if v, ok := m[k].([]any); ok {
		return v
	}
	return nil
}

type heldResult struct {
	id     string
	res    *promql.Result
	snap   run.CResult
	qry    promql.Query
	closed bool
}

// close closes the query at most once (the reference engine's queries, returned on the
// fallback path, hand their buffers back to a pool on every Close).
func (h *heldResult) close() {
	if !h.closed {
		h.closed = true
		h.qry.Close()
	}
}

func sameCanon(a, b run.CResult) bool {
	if a.Kind != b.Kind || a.Err != b.Err || len(a.Series) != len(b.Series) {
		return false
	}
	for i := range a.Series {
		x, y := a.Series[i], b.Series[i]
		if run.LsString(x.LS) != run.LsString(y.LS) || len(x.Pts) != len(y.Pts) || fmt.Sprint(x.Key) != fmt.Sprint(y.Key) {
			return false
		}
		for j := range x.Pts {
			if x.Pts[j].T != y.Pts[j].T || !(x.F[j] == y.F[j] || (x.F[j] != x.F[j] && y.F[j] != y.F[j])) {
				return false
			}
		}
	}
	return true
}

// famSession (C20): a history of operations on ONE engine and ONE growing storage. After every
// operation every result handed out earlier is compared with its deep snapshot; every execution
// is compared with the execution of a freshly constructed engine on the current data.
func famSession(sc *scn.Scenario, em func(vt.Ev)) {
	// every other history runs on one processor: what a query puts into a sync.Pool (a per-processor cache) is
	// then what the next query takes out of it
	procs := sc.Procs()
	if h := fnv.New32a(); sc.CfgInt("procs", 0) == 0 {
		h.Write([]byte(sc.ID))
		if h.Sum32()%2 == 0 {
			procs = 1
		}
	}
	runtime.GOMAXPROCS(procs)
	// one history in three runs on engines with a small sample budget (EngineOpts.MaxSamples = 20: less than most of
	// the range queries return, more than every instant query returns) - the long-lived engine and the fresh ones alike
	if h := fnv.New32a(); sc.CfgInt("maxsamples", 0) == 0 {
		h.Write([]byte(sc.ID))
		if (h.Sum32()>>5)%3 == 0 {
			if sc.Cfg == nil {
				sc.Cfg = map[string]any{}
			}
			sc.Cfg["maxsamples"] = float64(20)
		}
	}
	// whatever an engine keeps in pools between two queries is dropped by the garbage collector: a history is
	// replayed with collections made rare, so that pooled state lives from one query to the next as it does in a
	// process that allocates less than this harness (snapshots after every operation)
	defer debug.SetGCPercent(debug.SetGCPercent(2000))
	em(vt.Ev{"ev": "sc", "id": sc.ID, "fam": sc.Fam, "q": "history", "start": 0, "end": 0, "step": 0, "lb": sc.LB, "qlb": 0, "tickms": sc.TickMs, "data": []any{}, "cfg": sc.Cfg})
	var queries []string
	for _, x := range cfgList(sc.Cfg, "queries") {
		queries = append(queries, x.(string))
	}
	type win struct{ start, end, step, qlb int64 }
	var windows []win
	for _, x := range cfgList(sc.Cfg, "windows") {
		m := x.(map[string]any)
		qlb, _ := m["qlb"].(float64)
		windows = append(windows, win{int64(m["start"].(float64)), int64(m["end"].(float64)), int64(m["step"].(float64)), int64(qlb)})
	}
	series := run.SeriesOf(sc, sc.Data)
	store := vstore.New(series)
	// cfg.engine = "dist": the engine is a distributed engine over local engines whose storages hold the series
	// of the growing storage round robin - long-lived ones for the long-lived engine. The set of remote engines is
	// what the endpoints report when a query is created: two engines at first, one more (up to four) with every
	// series that is appended - the series are then spread over the engines there are
	dist := sc.CfgStr("engine", "plain") == "dist"
	const maxEngines = 4
	nEngines := 2
	split := func(parts [maxEngines]*vstore.Store) {
		for e := 0; e < maxEngines; e++ {
			var p []vstore.Series
			for j, s := range store.Series {
				if e < nEngines && j%nEngines == e {
					p = append(p, s)
				}
			}
			parts[e].Series = p
		}
	}
	newEngine := func() (run.QueryEngine, [maxEngines]*vstore.Store) {
		var parts [maxEngines]*vstore.Store
		if !dist {
			return engine.New(run.EngineOpts(sc, "default", false, nil)), parts
		}
		var remotes []api.RemoteEngine
		for e := 0; e < maxEngines; e++ {
			parts[e] = vstore.New(nil)
			remotes = append(remotes, engine.NewLocalEngine(run.EngineOpts(sc, "default", false, nil), parts[e]))
		}
		split(parts)
		return engine.NewDistributedEngine(run.EngineOpts(sc, "default", false, nil), currentEndpoints(func() []api.RemoteEngine { return remotes[:nEngines] })), parts
	}
	eng, parts := newEngine()
	syncParts := func() {
		if dist {
			split(parts)
		}
	}
	cl := newClassifier()
	var held []*heldResult
	nextTick := int64(8)
	recheck := func(after string) {
		for _, h := range held {
			now := run.Canon(h.res)
			em(vt.Ev{"ev": "snap", "rid": h.id, "same": sameCanon(h.snap, now), "after": after})
		}
	}
	for i, raw := range cfgList(sc.Cfg, "hist") {
		m := raw.(map[string]any)
		op := histOp{Op: m["op"].(string), Q: int(m["q"].(float64)), W: int(m["w"].(float64)), Kind: m["kind"].(string)}
		desc := fmt.Sprintf("#%d %s", i+1, op.Op)
		switch op.Op {
		case "append":
			// the storage's series slice is replaced (copy-on-write), existing label slices are kept
			ns := append([]vstore.Series{}, store.Series...)
			switch op.Kind {
			case "sample":
				for j := range ns {
					if j%2 == 0 {
						ns[j] = vstore.Series{L: ns[j].L, T: append(append([]int64{}, ns[j].T...), sc.Ms(nextTick)), V: append(append([]float64{}, ns[j].V...), float64(nextTick*3+int64(j)))}
					}
				}
			case "stale":
				j := int(nextTick) % len(ns)
				ns[j] = vstore.Series{L: ns[j].L, T: append(append([]int64{}, ns[j].T...), sc.Ms(nextTick)), V: append(append([]float64{}, ns[j].V...), scn.Sample{K: "s"}.Val())}
			case "series":
				// the values of a new series are its own (no ties between two new series: topk over tied values may pick either)
				ns = append(ns, vstore.Series{L: labels.FromStrings("__name__", "m", "a", "x", "b", fmt.Sprintf("new%d", nextTick)), T: []int64{sc.Ms(nextTick - 2), sc.Ms(nextTick)}, V: []float64{float64(1000 + nextTick*7), float64(1003 + nextTick*7)}})
			case "late":
				// a sample of the metric `late` (a="x"): the first one creates the metric
				found := false
				for j := range ns {
					if ns[j].L.Get("__name__") == "late" {
						ns[j] = vstore.Series{L: ns[j].L, T: append(append([]int64{}, ns[j].T...), sc.Ms(nextTick)), V: append(append([]float64{}, ns[j].V...), float64(5000+nextTick))}
						found = true
					}
				}
				if !found {
					ns = append(ns, vstore.Series{L: labels.FromStrings("__name__", "late", "a", "x"), T: []int64{sc.Ms(nextTick)}, V: []float64{float64(5000 + nextTick)}})
				}
			case "gap":
				nextTick += 4
			}
			if dist && op.Kind == "series" && nEngines < maxEngines {
				nEngines++
			}
			nextTick++
			store.Series = ns
			syncParts()
			em(vt.Ev{"ev": "data"})
			desc += " " + op.Kind
		case "close":
			if op.Q >= 1 && op.Q <= len(held) {
				held[op.Q-1].close()
				desc += " " + held[op.Q-1].id
			}
		case "exec":
			q := queries[op.Q-1]
			w := windows[op.W-1]
			qs := *sc
			qs.Q, qs.Start, qs.End, qs.Step, qs.QLB = q, w.start, w.end, w.step, w.qlb
			key := fmt.Sprintf("q%d/w%d", op.Q, op.W)
			qry, err := run.Create(eng, store, &qs)
			if err != nil {
				o := Obs{Err: true}
				em(vt.Ev{"ev": "cfg", "cfg": "long-lived engine " + desc})
				em(vt.Ev{"ev": "obs", "key": key, "cls": cl.class(key, o), "src": "long-lived", "desc": "create: " + err.Error()})
			} else {
				ctx, cancel := context.WithCancel(context.Background())
				switch op.Kind {
				case "cancel-before":
					cancel()
				case "cancel-mid":
					go func() { time.Sleep(50 * time.Microsecond); cancel() }()
				}
				res := qry.Exec(ctx)
				cancel()
				c := run.Canon(res)
				rid := fmt.Sprintf("r%d(%s)", len(held)+1, key)
				held = append(held, &heldResult{id: rid, res: res, snap: c, qry: qry})
				desc += " " + rid + " " + op.Kind
				// an execution we cancelled and that failed has no result to compare (what it may
				// return instead of an error is C14's business); a completed one has
				if !(op.Kind != "ok" && res.Err != nil) {
					// a cancelled execution has no result to compare; a completed one has
					o := wholeResult(c)
					em(vt.Ev{"ev": "cfg", "cfg": "long-lived engine " + desc})
					em(vt.Ev{"ev": "obs", "key": key, "cls": cl.class(key, o), "src": "long-lived", "desc": o.String() + " " + c.ErrMsg})
				}
			}
			// a freshly constructed engine on the current data
			fe, _ := newEngine()
			fo := run.Exec(context.Background(), fe, vstore.New(store.Series), &qs, false)
			o := wholeResult(fo.C)
			if fo.CreateErr != nil {
				o = Obs{Err: true}
			}
			em(vt.Ev{"ev": "cfg", "cfg": "fresh engine " + desc})
			em(vt.Ev{"ev": "obs", "key": key, "cls": cl.class(key, o), "src": "fresh", "desc": o.String()})
		}
		recheck(desc)
	}
	for _, h := range held {
		h.close()
	}
	recheck("closing everything")
	em(vt.Ev{"ev": "end"})
}
