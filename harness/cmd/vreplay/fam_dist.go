package main

import (
	"context"
	"fmt"
	"hash/fnv"
	"math/rand"
	"runtime"

	"github.com/prometheus/prometheus/promql/parser"

	"github.com/thanos-community/promql-engine/api"
	"github.com/thanos-community/promql-engine/engine"

	"verifharness/run"
	"verifharness/scn"
	"verifharness/vstore"
	"verifharness/vt"
)

func init() {
	families["dist"] = famDist
}

// partitions of the scenario: the one given in cfg.part (from Distribute.tla), else seeded random ones
func partitionsOf(sc *scn.Scenario) [][]int {
	n := len(sc.Data)
	if p, ok := sc.Cfg["part"].([]any); ok {
		asg := make([]int, n)
		for j := range asg {
			asg[j] = 1
			if j < len(p) {
				if f, ok := p[j].(float64); ok {
					asg[j] = int(f)
				}
			}
		}
		return [][]int{asg}
	}
	r := rand.New(rand.NewSource(flagSeed*131 + int64(len(sc.Query()))*7 + int64(n)))
	var out [][]int
	for k := 0; k < 3; k++ {
		engines := 1 + r.Intn(4)
		asg := make([]int, n)
		for j := range asg {
			asg[j] = 1 + r.Intn(engines)
		}
		out = append(out, asg)
	}
	return out
}

// famDist (C10): the distributed engine over remote engines holding a disjoint partition each
// returns what one engine returns over the union.
func famDist(sc *scn.Scenario, em func(vt.Ev)) {
	q := sc.Query()
	expr, err := parser.ParseExpr(q)
	if err != nil {
		em(vt.Ev{"ev": "skip", "why": "parse", "q": q})
		return
	}
	runtime.GOMAXPROCS(sc.Procs())
	em(header(sc, expr))
	cl := newClassifier()
	all := run.SeriesOf(sc, sc.Data)
	// cfg.fallback = 1: constructs the engine does not support are part of the comparison - the central
	// engine, the distributed engine and the remote engines all have the fallback enabled
	noFallback := sc.CfgInt("fallback", 0) == 0
	// one scenario in three (by id): the engines are given the list of all optimizers explicitly
	optimizers := "default"
	if h := fnv.New32a(); true {
		h.Write([]byte(sc.ID))
		if (h.Sum32()>>9)%3 == 0 {
			optimizers = "all"
		}
	}
	central := engine.New(run.EngineOpts(sc, optimizers, noFallback, nil))
	cout := run.Exec(context.Background(), central, vstore.New(all), sc, false)
	if cout.CreateErr != nil {
		em(vt.Ev{"ev": "skip", "why": "not native", "q": q})
		em(vt.Ev{"ev": "end"})
		return
	}
	em(vt.Ev{"ev": "cfg", "cfg": "central"})
	co := wholeResult(cout.C)
	em(vt.Ev{"ev": "obs", "key": "result", "cls": cl.class("result", co), "src": "central", "desc": co.String()})
	for _, asg := range partitionsOf(sc) {
		ne := 0
		for _, e := range asg {
			if e > ne {
				ne = e
			}
		}
		if c := sc.CfgInt("engines", 0); c > ne {
			ne = c
		}
		var remotes []api.RemoteEngine
		for e := 1; e <= ne; e++ {
			var part []vstore.Series
			for j, s := range all {
				if asg[j] == e {
					part = append(part, s)
				}
			}
			remotes = append(remotes, engine.NewLocalEngine(run.EngineOpts(sc, "default", false, nil), vstore.New(part)))
		}
		de := engine.NewDistributedEngine(run.EngineOpts(sc, optimizers, noFallback, nil), api.NewStaticEndpoints(remotes))
		// a second distributed engine of the same process, built with the same options over engines of its own
		// (another tenant, holding nothing): it is never asked anything
		_ = engine.NewDistributedEngine(run.EngineOpts(sc, optimizers, noFallback, nil), api.NewStaticEndpoints([]api.RemoteEngine{
			engine.NewLocalEngine(run.EngineOpts(sc, "default", false, nil), vstore.New(nil))}))
		local := vstore.New(all)
		dout := run.Exec(context.Background(), de, local, sc, false)
		em(vt.Ev{"ev": "cfg", "cfg": fmt.Sprintf("distributed engines=%d assignment=%v local_selects=%d", ne, asg, len(local.SelectRecs()))})
		if dout.CreateErr != nil {
			em(vt.Ev{"ev": "obs", "key": "result", "cls": cl.class("result", Obs{Err: true}), "src": "distributed", "desc": "create: " + dout.CreateErr.Error()})
			continue
		}
		do := wholeResult(dout.C)
		em(vt.Ev{"ev": "obs", "key": "result", "cls": cl.class("result", do), "src": "distributed", "desc": do.String() + " " + dout.C.ErrMsg})
	}
	em(vt.Ev{"ev": "end"})
}
