package main

import (
	"context"
	"errors"
	"fmt"
	"math/rand"
	"os"
	"regexp"
	"runtime"
	"sort"
	"strings"
	"sync"
	"sync/atomic"
	"time"

	"github.com/go-kit/log"
	"github.com/prometheus/prometheus/promql"
	"github.com/prometheus/prometheus/storage"

	"github.com/thanos-community/promql-engine/api"
	"github.com/thanos-community/promql-engine/engine"
	"github.com/thanos-community/promql-engine/execution/model"

	"verifharness/run"
	"verifharness/scn"
	"verifharness/vstore"
	"verifharness/vt"
)

func init() {
	families["fault"] = famFault
}

var canErrKinds = map[string]bool{"Querier": true, "SetNext": true, "Next": true, "Seek": true}

func errKind(err error) string {
	switch {
	case err == nil:
		return "none"
	case errors.Is(err, vstore.ErrInjected):
		return "injected"
	case errors.Is(err, context.DeadlineExceeded):
		return "ctx:deadline"
	case errors.Is(err, context.Canceled):
		return "ctx:canceled"
	}
	var ip vstore.InjectedPanic
	if errors.As(err, &ip) || strings.Contains(err.Error(), "injected runtime panic") {
		return "panic"
	}
	return "other"
}

var goroutineHead = regexp.MustCompile(`(?m)^goroutine \d+ \[([^\]]+)\]:\n([^\n]+)`)

// leaked returns the number of goroutines above base after a grace period, and where they are.
func leaked(base int) (int, string) {
	deadline := time.Now().Add(3 * time.Second)
	for time.Now().Before(deadline) {
		if runtime.NumGoroutine() <= base {
			return 0, ""
		}
		time.Sleep(2 * time.Millisecond)
	}
	n := runtime.NumGoroutine() - base
	buf := make([]byte, 1<<18)
	buf = buf[:runtime.Stack(buf, true)]
	var where []string
	for _, g := range strings.Split(string(buf), "\n\n") {
		if strings.Contains(g, "promql-engine/") && !strings.Contains(g, "cmd/vreplay") {
			lines := strings.Split(g, "\n")
			for _, l := range lines {
				if strings.Contains(l, "promql-engine/") && strings.Contains(l, "(") && !strings.HasPrefix(l, "\t") {
					f := l
					if i := strings.LastIndex(f, "/"); i >= 0 {
						f = f[i+1:]
					}
					if i := strings.Index(f, "("); i >= 0 {
						f = f[:i]
					}
					where = append(where, f)
					break
				}
			}
		}
	}
	sort.Strings(where)
	w := strings.Join(where, ",")
	if len(w) > 200 {
		w = w[:200]
	}
	return n, w
}

var gatePoints = []string{"exec.loop", "concurrent.next.recv", "concurrent.pull.send", "concurrent.drain.woken", "coalesce.merge", "worker.work"}

type faultRun struct {
	points map[string]int64 // how often each scheduling point (hook H2) was passed
	dur    time.Duration
	n      int64
	kinds  []string
	obs    Obs
	failed bool
}

// runFault executes the scenario once with one fault and emits the life-cycle events.
func runFault(sc *scn.Scenario, em func(vt.Ev), mode string, k int64, baseline *faultRun) *faultRun {
	// "<mode>+lag": every consumer of a concurrency operator is slow (it pauses before each receive), so the
	// producers run ahead and hit the fault with their buffers full
	lag := strings.HasSuffix(mode, "+lag")
	mode = strings.TrimSuffix(mode, "+lag")
	// "<mode>+busy": the engine has an active-query tracker with room for one query (EngineOpts.ActiveQueryTracker),
	// and another query of the same engine is being executed (blocked in its storage) the whole time
	busy := strings.HasSuffix(mode, "+busy")
	mode = strings.TrimSuffix(mode, "+busy")
	gate := strings.TrimPrefix(strings.TrimPrefix(strings.TrimPrefix(mode, "gate:"), "gateq:"), "gatec:")
	isGate := strings.HasPrefix(mode, "gate:") || strings.HasPrefix(mode, "gateq:") || strings.HasPrefix(mode, "gatec:")
	viaQuery := strings.HasPrefix(mode, "gateq:") // cancel through Query.Cancel() instead of the caller's context
	viaClose := strings.HasPrefix(mode, "gatec:") // ... through Query.Close() called from another goroutine
	sink := &vt.Sink{}
	series := run.SeriesOf(sc, sc.Data)
	dist := sc.CfgInt("dist", 0) == 1
	// "blockq": the k-th callback blocks until its context is cancelled, and the cancellation comes from
	// Query.Cancel() called by another goroutine (not from the caller's context)
	blockq := mode == "blockq"
	if blockq {
		mode = "block"
	}
	honour := mode == "cancel" || mode == "block" || mode == "cancelcall" || mode == "closecall" || mode == "deadline" || strings.HasPrefix(mode, "gate")
	ctx, cancel := context.WithCancel(context.Background())
	if mode == "deadline" {
		// the context given to Exec times out k microseconds from now (ctx.Err() = DeadlineExceeded)
		cancel()
		ctx, cancel = context.WithTimeout(context.Background(), time.Duration(k)*time.Microsecond)
	}
	defer cancel()
	mk := func(ss []vstore.Series, idbase int64) *vstore.Store {
		st := vstore.New(ss)
		st.Sink, st.HonourCtx, st.IDBase = sink, honour, idbase
		return st
	}
	var main *vstore.Store
	var all []*vstore.Store
	var eng run.QueryEngine
	if dist {
		var remotes []api.RemoteEngine
		for e := 0; e < 2; e++ {
			var part []vstore.Series
			for j, s := range series {
				if j%2 == e {
					part = append(part, s)
				}
			}
			st := mk(part, int64(1000*(e+1)))
			all = append(all, st)
			remotes = append(remotes, engine.NewLocalEngine(run.EngineOpts(sc, "default", true, nil), st))
		}
		main = all[0] // the fault is injected into the first remote engine's storage
		local := mk(series, 0)
		all = append(all, local)
		eng = distEngine{engine.NewDistributedEngine(run.EngineOpts(sc, "default", true, nil), api.NewStaticEndpoints(remotes)), local}
	} else {
		main = mk(series, 0)
		all = append(all, main)
		o := run.EngineOpts(sc, "default", true, nil)
		if busy {
			if dir, derr := os.MkdirTemp("", "vreplay-aqt"); derr == nil {
				defer os.RemoveAll(dir)
				o.EngineOpts.ActiveQueryTracker = promql.NewActiveQueryTracker(dir, 1, log.NewNopLogger())
			}
		}
		eng = engine.New(o)
	}
	// the other query of a busy engine: its first storage callback blocks until it is released
	releaseHolder := func() {}
	if busy && !dist {
		hst := vstore.New(series)
		hst.HonourCtx = true
		hctx, hcancel := context.WithCancel(context.Background())
		hst.Inj = &vstore.Inject{K: 1, Kind: "block", Cancel: hcancel}
		if hq, herr := run.Create(eng, hst, sc); herr == nil {
			hdone := make(chan struct{})
			go func() { hq.Exec(hctx); close(hdone) }()
			for i := 0; i < 200 && atomic.LoadInt32(&hst.Inj.Fired) == 0; i++ {
				time.Sleep(time.Millisecond)
			}
			var once sync.Once
			releaseHolder = func() {
				once.Do(func() {
					hcancel()
					select {
					case <-hdone:
					case <-time.After(5 * time.Second):
					}
					hq.Close()
				})
			}
		} else {
			hcancel()
		}
	}
	defer releaseHolder()
	snaps := make([]vstore.Snapshot, len(all))
	for i, st := range all {
		snaps[i] = st.Snapshot()
	}
	if mode != "none" && mode != "cancelcall" && mode != "closecall" && mode != "deadline" && !isGate {
		main.Inj = &vstore.Inject{K: k, Kind: mode, Cancel: cancel}
	}
	// scheduling points (hook H2): count them; in mode "gate:<point>" cancel the context when the
	// k-th pass of <point> is reached and hold that goroutine for a moment, so that the other
	// goroutines of the query see the cancellation first
	var pmu sync.Mutex
	points := map[string]int64{}
	var qryForGate promql.Query
	gateFired := false
	model.SetVerifYield(func(p string) {
		pmu.Lock()
		points[p]++
		hit := isGate && p == gate && points[p] == k
		if hit {
			gateFired = true
		}
		pmu.Unlock()
		if lag && p == "concurrent.next.recv" {
			time.Sleep(400 * time.Microsecond)
		}
		if hit {
			if viaQuery && qryForGate != nil {
				qryForGate.Cancel()
			} else if viaClose && qryForGate != nil {
				qryForGate.Close()
			} else {
				cancel()
			}
			time.Sleep(300 * time.Microsecond)
		}
	})
	defer model.SetVerifYield(nil)
	base := runtime.NumGoroutine()
	var qst = main
	if dist {
		qst = all[len(all)-1]
	}
	qry, err := run.Create(eng, qst, sc)
	if err != nil {
		return nil
	}
	pmu.Lock()
	qryForGate = qry
	pmu.Unlock()
	sink.Emit(vt.Ev{"ev": "create"})
	sink.Emit(vt.Ev{"ev": "execstart"})
	done := make(chan *promql.Result, 1)
	t0 := time.Now()
	go func() { done <- qry.Exec(ctx) }()
	switch mode {
	case "block":
		go func() {
			time.Sleep(20 * time.Millisecond)
			if blockq {
				qry.Cancel()
			} else {
				cancel()
			}
		}()
	case "cancelcall":
		// k is the delay in microseconds before Cancel() is called from another goroutine
		go func() {
			if k > 0 {
				time.Sleep(time.Duration(k) * time.Microsecond)
			}
			qry.Cancel()
		}()
	case "closecall":
		go func() {
			if k > 0 {
				time.Sleep(time.Duration(k) * time.Microsecond)
			}
			qry.Close()
		}()
	}
	var res *promql.Result
	timedout := false
	select {
	case res = <-done:
	case <-time.After(5 * time.Second):
		timedout = true
	}
	ms := time.Since(t0).Milliseconds()
	out := &faultRun{dur: time.Since(t0)}
	ek, equal := "timeout", false
	if !timedout {
		c := run.Canon(res)
		out.obs = wholeResult(c)
		out.failed = res.Err != nil
		ek = errKind(res.Err)
		if baseline != nil {
			equal = out.obs.equal(baseline.obs)
		} else {
			equal = true
		}
	}
	inj := main.Inj
	firedNow := mode == "cancelcall" || mode == "closecall" || mode == "deadline"
	if inj != nil && inj.Fired == 1 {
		firedNow = true
		sink.Emit(vt.Ev{"ev": "fired", "at": inj.At})
	} else if mode == "cancelcall" {
		sink.Emit(vt.Ev{"ev": "fired", "at": "Cancel()"})
	} else if mode == "closecall" {
		sink.Emit(vt.Ev{"ev": "fired", "at": "Close()"})
	} else if mode == "deadline" {
		sink.Emit(vt.Ev{"ev": "fired", "at": "deadline"})
	} else if isGate {
		pmu.Lock()
		gf := gateFired
		pmu.Unlock()
		if gf {
			sink.Emit(vt.Ev{"ev": "fired", "at": gate})
		}
	}
	_ = firedNow
	for _, st := range all {
		st.MarkReturned()
	}
	desc := ""
	if res != nil && res.Err != nil {
		desc = res.Err.Error()
		if len(desc) > 160 {
			desc = desc[:160]
		}
	}
	// the error a cancelled execution must report: the error of the context that was cancelled (the
	// deadline's, when the caller's context timed out)
	want := "ctx:canceled"
	if mode == "deadline" {
		want = "ctx:deadline"
	}
	sink.Emit(vt.Ev{"ev": "execret", "errkind": ek, "want": want, "equal": equal, "timedout": timedout, "ms": ms, "desc": desc})
	qry.Close()
	cancel()
	sink.Emit(vt.Ev{"ev": "close"})
	alive, where := leaked(base)
	mutated := ""
	for i, st := range all {
		if d := st.Diff(snaps[i]); d != "" {
			mutated = d
		}
	}
	sink.Emit(vt.Ev{"ev": "census", "alive": alive, "where": where, "mutated": mutated})
	// the engine that has just seen the fault serves the same query again, fault-free: other queries
	// are unaffected by a query that failed, panicked or was cancelled (not in the distributed
	// set-up, whose remote engines hold the faulted storage)
	releaseHolder()
	if mode != "none" && !dist && !timedout && baseline != nil && alive == 0 {
		again := run.Exec(context.Background(), eng, vstore.New(series), sc, false)
		sink.Emit(vt.Ev{"ev": "after", "equal": wholeResult(again.C).equal(baseline.obs), "desc": wholeResult(again.C).diff(baseline.obs)})
	}
	rmode := mode
	if isGate {
		rmode = "cancel" // for the specification a gate is a cancellation at a scheduling point
	}
	if mode == "closecall" || mode == "deadline" {
		rmode = "cancelcall" // Close() from another goroutine, or a deadline, cancels like Cancel() does
	}
	if mode == "errwrap" {
		rmode = "err"
	}
	if mode == "cancelpanic" {
		rmode = "panic" // a panic (after a cancellation): the run ends with an error, the process lives
	}
	em(vt.Ev{"ev": "run", "mode": rmode, "k": k})
	evs := sink.Drain()
	sort.SliceStable(evs, func(i, j int) bool { return seqOf(evs[i]) < seqOf(evs[j]) })
	for _, e := range evs {
		em(e)
	}
	em(vt.Ev{"ev": "endrun"})
	pmu.Lock()
	out.points = map[string]int64{}
	for p, n := range points {
		out.points[p] = n
	}
	pmu.Unlock()
	out.n = main.Callbacks()
	out.kinds = main.KindsSnapshot()
	if alive > 0 {
		// do not let stragglers of this run be counted against the next one
		time.Sleep(50 * time.Millisecond)
	}
	return out
}

// distEngine adapts the distributed engine (which takes the local queryable per query).
type distEngine struct {
	e interface {
		NewInstantQuery(q storage.Queryable, opts *promql.QueryOpts, qs string, ts time.Time) (promql.Query, error)
		NewRangeQuery(q storage.Queryable, opts *promql.QueryOpts, qs string, start, end time.Time, interval time.Duration) (promql.Query, error)
	}
	local *vstore.Store
}

func (d distEngine) NewInstantQuery(q storage.Queryable, opts *promql.QueryOpts, qs string, ts time.Time) (promql.Query, error) {
	return d.e.NewInstantQuery(q, opts, qs, ts)
}
func (d distEngine) NewRangeQuery(q storage.Queryable, opts *promql.QueryOpts, qs string, start, end time.Time, interval time.Duration) (promql.Query, error) {
	return d.e.NewRangeQuery(q, opts, qs, start, end, interval)
}

func pickKs(r *rand.Rand, n int64, kinds []string, mode string, max int) []int64 {
	var cand []int64
	for k := int64(1); k <= n && int(k) <= len(kinds); k++ {
		if (mode == "err" || mode == "errdown" || mode == "errwrap") && !canErrKinds[kinds[k-1]] {
			continue
		}
		cand = append(cand, k)
	}
	if len(cand) <= max {
		return cand
	}
	// stratified by the kind of the callback (Querier, Select, SetNext, Labels, Iterator, Seek, Next, At, ...):
	// of every kind the first and the last occurrence and seeded ones in between, then the first and last
	// callbacks overall and a seeded sample of the rest
	keep := map[int64]bool{}
	byKind := map[string][]int64{}
	var order []string
	for _, k := range cand {
		kd := kinds[k-1]
		if _, ok := byKind[kd]; !ok {
			order = append(order, kd)
		}
		byKind[kd] = append(byKind[kd], k)
	}
	per := max / (2 * len(order))
	if per < 3 {
		per = 3
	}
	for _, kd := range order {
		ks := byKind[kd]
		keep[ks[0]] = true
		keep[ks[len(ks)-1]] = true
		for i := 2; i < per && len(ks) > 2; i++ {
			keep[ks[r.Intn(len(ks))]] = true
		}
	}
	for i := 0; i < max/8; i++ {
		keep[cand[i]] = true
		keep[cand[len(cand)-1-i]] = true
	}
	for tries := 0; len(keep) < max && tries < 10*max; tries++ {
		keep[cand[r.Intn(len(cand))]] = true
	}
	var out []int64
	for k := range keep {
		out = append(out, k)
	}
	sort.Slice(out, func(i, j int) bool { return out[i] < out[j] })
	return out
}

// famFault (C13, C14, C15, C17): the scenario is executed fault-free (twice), then once per
// mode and per callback index k reached by the fault-free run: a storage error, a runtime
// panic, a cancellation, or a callback that blocks until cancelled, at the k-th callback;
// and Query.Cancel() from another goroutine at seeded instants.
func famFault(sc *scn.Scenario, em func(vt.Ev)) {
	q := sc.Query()
	runtime.GOMAXPROCS(sc.CfgInt("procs", 4))
	em(vt.Ev{"ev": "sc", "id": sc.ID, "fam": sc.Fam, "q": q, "start": sc.Start, "end": sc.End, "step": sc.Step, "lb": sc.LB, "qlb": sc.QLB,
		"tickms": sc.TickMs, "data": []any{}, "cfg": fmt.Sprintf("procs=%d dist=%d", sc.CfgInt("procs", 4), sc.CfgInt("dist", 0))})
	base := runFault(sc, em, "none", 0, nil)
	if base == nil {
		em(vt.Ev{"ev": "skip", "why": "not native", "q": q})
		em(vt.Ev{"ev": "end"})
		return
	}
	if base.failed {
		// a query that fails on its own says nothing about how faults are reported
		em(vt.Ev{"ev": "skip", "why": "fails without a fault", "q": q})
		em(vt.Ev{"ev": "end"})
		return
	}
	runFault(sc, em, "none", 0, base)
	r := rand.New(rand.NewSource(flagSeed*7919 + int64(len(q))))
	maxK := sc.CfgInt("maxk", 40)
	var modes []string
	for _, m := range cfgList(sc.Cfg, "modes") {
		modes = append(modes, m.(string))
	}
	for _, mode := range modes {
		if mode == "gate" {
			// a cancellation at every pass of every scheduling point of the engine (hook H2)
			for _, p := range gatePoints {
				n := base.points[p]
				var ks []int64
				for k := int64(1); k <= n; k++ {
					ks = append(ks, k)
				}
				if len(ks) > maxK {
					r.Shuffle(len(ks), func(i, j int) { ks[i], ks[j] = ks[j], ks[i] })
					ks = append(ks[:maxK-3], 1, 2, n)
				}
				for _, k := range ks {
					runFault(sc, em, "gate:"+p, k, base)
					runFault(sc, em, "gateq:"+p, k, base)
					if k%3 == 0 {
						runFault(sc, em, "gatec:"+p, k, base)
					}
				}
			}
			continue
		}
		if mode == "cancelcall" {
			// Cancel() at seeded instants spread over (twice) the duration of the fault-free run
			span := 2*base.dur.Microseconds() + 50
			for i := 0; i < sc.CfgInt("cancelcalls", 40); i++ {
				runFault(sc, em, mode, r.Int63n(span), base)
				if i%4 == 0 {
					runFault(sc, em, "closecall", r.Int63n(span), base)
				}
				if i%4 == 1 {
					runFault(sc, em, "deadline", 1+r.Int63n(span), base)
				}
			}
			continue
		}
		if mode == "cancelcall+busy" {
			span := 2*base.dur.Microseconds() + 50
			for i := 0; i < 6; i++ {
				runFault(sc, em, mode, r.Int63n(span), base)
			}
			continue
		}
		ks := pickKs(r, base.n, base.kinds, strings.TrimSuffix(strings.TrimSuffix(mode, "+lag"), "+busy"), maxK)
		if strings.HasSuffix(mode, "+busy") && len(ks) > 6 {
			ks = ks[:6]
		}
		for _, k := range ks {
			runFault(sc, em, mode, k, base)
		}
	}
	em(vt.Ev{"ev": "end"})
}
