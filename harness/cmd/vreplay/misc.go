package main

import (
	"encoding/json"
	"os"
	"sort"

	"github.com/prometheus/prometheus/promql/parser"
)

// cmdVocab prints the PromQL vocabulary of the pinned parser as JSON (used to generate the
// constants of Fallback.tla at check time).
func cmdVocab() {
	type fn struct {
		Name     string   `json:"name"`
		Args     []string `json:"args"`
		Variadic int      `json:"variadic"`
		Ret      string   `json:"ret"`
	}
	var fns []fn
	for name, f := range parser.Functions {
		x := fn{Name: name, Variadic: f.Variadic, Ret: string(f.ReturnType)}
		for _, a := range f.ArgTypes {
			x.Args = append(x.Args, string(a))
		}
		fns = append(fns, x)
	}
	sort.Slice(fns, func(i, j int) bool { return fns[i].Name < fns[j].Name })
	var aggs, bins []string
	for it, s := range parser.ItemTypeStr {
		if it.IsAggregator() {
			aggs = append(aggs, s)
		}
		if it.IsOperator() {
			bins = append(bins, s)
		}
	}
	sort.Strings(aggs)
	sort.Strings(bins)
	json.NewEncoder(os.Stdout).Encode(map[string]any{"functions": fns, "aggregators": aggs, "operators": bins})
}
