package main

import (
	"context"
	"runtime"

	"github.com/prometheus/prometheus/promql/parser"

	"github.com/thanos-community/promql-engine/engine"
	"github.com/thanos-community/promql-engine/logicalplan"

	"verifharness/run"
	"verifharness/scn"
	"verifharness/vt"
)

func init() {
	families["optim"] = famOptim
}

var optimizerSets = []string{"none", "sort", "merge", "propagate", "default", "all", "merge+propagate", "propagate+merge"}

// famOptim (C09): the same query under every set of logical optimizers; results (or errors)
// must coincide with the unoptimized run. The rewritten plan text is logged as a diagnostic.
func famOptim(sc *scn.Scenario, em func(vt.Ev)) {
	q := sc.Query()
	expr, err := parser.ParseExpr(q)
	if err != nil {
		em(vt.Ev{"ev": "skip", "why": "parse", "q": q})
		return
	}
	runtime.GOMAXPROCS(sc.Procs())
	em(header(sc, expr))
	cl := newClassifier()
	for _, set := range optimizerSets {
		eng := engine.New(run.EngineOpts(sc, set, true, nil))
		out := run.Exec(context.Background(), eng, run.Store(sc), sc, false)
		if out.CreateErr != nil {
			em(vt.Ev{"ev": "skip", "why": "not native", "q": q})
			break
		}
		plan := ""
		if e2, perr := parser.ParseExpr(q); perr == nil {
			opts := run.Optimizers(set)
			if opts == nil {
				opts = logicalplan.DefaultOptimizers
			}
			plan = logicalplan.New(e2, sc.Time(sc.Start), sc.Time(sc.End)).Optimize(opts).Expr().String()
		}
		em(vt.Ev{"ev": "cfg", "cfg": "optimizers=" + set, "plan": plan})
		o := wholeResult(out.C)
		em(vt.Ev{"ev": "obs", "key": "result", "cls": cl.class("result", o), "src": set, "desc": o.String()})
	}
	em(vt.Ev{"ev": "end"})
}
