package vstore

import "math"

func f64bits(f float64) uint64 { return math.Float64bits(f) }
