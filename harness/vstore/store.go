// Package vstore is the instrumented in-memory storage.Queryable used for both the engine
// under test and the pinned reference engine: numbered callbacks, fault / panic / cancel /
// block injection at the k-th callback, querier open/close accounting, recording of every
// Select (matchers, querier range, hints), optional pruning of samples to the hinted range,
// and deep snapshots of the label sets and samples it hands out.
package vstore

import (
	"context"
	"errors"
	"fmt"
	"sort"
	"sync"
	"sync/atomic"
	"time"

	"github.com/prometheus/prometheus/model/histogram"
	"github.com/prometheus/prometheus/model/labels"
	"github.com/prometheus/prometheus/storage"
	"github.com/prometheus/prometheus/tsdb/chunkenc"

	"verifharness/vt"
)

// ErrInjected is the storage error injected by the harness.
var ErrInjected = errors.New("vstore: injected storage failure")

// errInjectedTimeout is what a storage with a deadline of its own reports: the injected failure, which
// also "is" context.DeadlineExceeded although the context of the query is alive.
type errInjectedTimeout struct{}

func (errInjectedTimeout) Error() string {
	return "vstore: injected storage failure: fetching chunks: context deadline exceeded"
}
func (errInjectedTimeout) Is(target error) bool {
	return target == ErrInjected || target == context.DeadlineExceeded
}

// InjectedPanic is a runtime.Error, like the one the repository's own test injects.
type InjectedPanic struct{ Msg string }

func (p InjectedPanic) Error() string { return p.Msg }
func (p InjectedPanic) RuntimeError() {}

type Series struct {
	L labels.Labels
	T []int64
	V []float64
}

// Inject describes one fault: act at the K-th storage callback (1-based).
type Inject struct {
	K      int64
	Kind   string // "err" | "errwrap" (like err, the error also is context.DeadlineExceeded) | "errdown" (every callback from the K-th on fails: the storage went down) | "panic" | "cancelpanic" (the context is cancelled, then the callback panics) | "cancel" | "block"
	Cancel context.CancelFunc
	Fired  int32
	At     string // kind of the callback at which it fired
}

type SelectRec struct {
	Matchers []string
	Mint     int64
	Maxt     int64
	Start    int64
	End      int64
	Step     int64
	Range    int64
	Func     string
	Grouping []string
	By       bool
}

func (r SelectRec) Key() string {
	g := append([]string{}, r.Grouping...)
	return fmt.Sprintf("%v|q=%d..%d|h=%d..%d|step=%d|range=%d|func=%s|by=%v|grp=%v", r.Matchers, r.Mint, r.Maxt, r.Start, r.End, r.Step, r.Range, r.Func, r.By, g)
}

type Store struct {
	Series []Series
	Prune  bool
	// Trim makes every select return only the samples inside the time range of its querier
	// ([mint, maxt]), as a TSDB does: a series may then come back without any sample.
	Trim bool
	Inj  *Inject
	// Perturb, when set, is called at every callback (seeded yields / sleeps).
	Perturb func(n int64)
	// Sink, when set, receives "qopen" / "qclose" events (querier lifecycle).
	Sink *vt.Sink
	// HonourCtx makes every callback that can fail return the context's error once the
	// context of its querier is done (what a real storage does).
	HonourCtx bool
	// IDBase is added to the querier ids of this store (several stores, one event sink).
	IDBase int64

	cb int64
	mu sync.Mutex
	// observations
	Selects  []SelectRec
	Kinds    []string
	qid      int64
	Opened   map[int64]int
	Closed   map[int64]int
	LateOps  []string // querier opens/closes that happened after MarkReturned
	returned int32
	started  int32
	EarlyOps []string // querier opened before MarkStarted
}

func New(series []Series) *Store {
	return &Store{Series: series, Opened: map[int64]int{}, Closed: map[int64]int{}}
}

// Clone returns a store over the same series (sharing the label slices and samples) with
// fresh observation state.
func (s *Store) Clone() *Store {
	n := New(s.Series)
	n.Prune = s.Prune
	n.Trim = s.Trim
	return n
}

func (s *Store) MarkStarted()  { atomic.StoreInt32(&s.started, 1) }
func (s *Store) MarkReturned() { atomic.StoreInt32(&s.returned, 1) }
func (s *Store) Callbacks() int64 {
	return atomic.LoadInt64(&s.cb)
}

// tick numbers a callback; it returns true when an error must be injected here.
func (s *Store) tick(ctx context.Context, kind string, canErr bool) bool {
	n := atomic.AddInt64(&s.cb, 1)
	s.mu.Lock()
	s.Kinds = append(s.Kinds, kind)
	s.mu.Unlock()
	if s.Perturb != nil {
		s.Perturb(n)
	}
	inj := s.Inj
	if inj != nil && inj.Kind == "errdown" && n >= inj.K {
		if !canErr {
			return false
		}
		if atomic.CompareAndSwapInt32(&inj.Fired, 0, 1) {
			s.mu.Lock()
			inj.At = kind
			s.mu.Unlock()
		}
		return true
	}
	if inj == nil || inj.K != n {
		if s.HonourCtx && canErr && ctx != nil && ctx.Err() != nil {
			return true
		}
		return false
	}
	if (inj.Kind == "err" || inj.Kind == "errwrap") && !canErr {
		return false // this callback cannot report a failure: nothing is injected
	}
	atomic.StoreInt32(&inj.Fired, 1)
	inj.At = kind
	switch inj.Kind {
	case "panic":
		panic(InjectedPanic{Msg: "vstore: injected runtime panic at " + kind})
	case "cancelpanic":
		// the query is cancelled, and the callback that was running trips over what the cancellation tore down
		inj.Cancel()
		time.Sleep(200 * time.Microsecond)
		panic(InjectedPanic{Msg: "vstore: injected runtime panic after the cancellation at " + kind})
	case "cancel":
		inj.Cancel()
	case "block":
		if ctx != nil {
			select {
			case <-ctx.Done():
				// a storage needs a moment to notice a cancellation: whoever must wait for this
				// callback (C17: queriers are closed no later than Exec returns) has to wait that long
				time.Sleep(3 * time.Millisecond)
			case <-time.After(20 * time.Second):
			}
		}
	case "err", "errwrap":
		return canErr
	}
	return false
}

// failure is the error a failing callback reports: the injected one, or the context's.
func (s *Store) failure(ctx context.Context) error {
	if inj := s.Inj; inj != nil && inj.Kind == "errwrap" && atomic.LoadInt32(&inj.Fired) == 1 {
		return errInjectedTimeout{}
	}
	if inj := s.Inj; inj != nil && (inj.Kind == "err" || inj.Kind == "errdown") && atomic.LoadInt32(&inj.Fired) == 1 {
		return ErrInjected
	}
	if ctx != nil && ctx.Err() != nil {
		return ctx.Err()
	}
	return ErrInjected
}

func (s *Store) Querier(ctx context.Context, mint, maxt int64) (storage.Querier, error) {
	if s.tick(ctx, "Querier", true) {
		return nil, s.failure(ctx)
	}
	id := s.IDBase + atomic.AddInt64(&s.qid, 1)
	s.Sink.Emit(vt.Ev{"ev": "qopen", "id": id})
	s.mu.Lock()
	s.Opened[id]++
	if atomic.LoadInt32(&s.started) == 0 {
		s.EarlyOps = append(s.EarlyOps, fmt.Sprintf("open:%d", id))
	}
	if atomic.LoadInt32(&s.returned) == 1 {
		s.LateOps = append(s.LateOps, fmt.Sprintf("open:%d", id))
	}
	s.mu.Unlock()
	return &querier{s: s, id: id, ctx: ctx, mint: mint, maxt: maxt}, nil
}

type querier struct {
	s          *Store
	id         int64
	ctx        context.Context
	mint, maxt int64
}

func (q *querier) LabelValues(string, ...*labels.Matcher) ([]string, storage.Warnings, error) {
	return nil, nil, nil
}
func (q *querier) LabelNames(...*labels.Matcher) ([]string, storage.Warnings, error) {
	return nil, nil, nil
}
func (q *querier) Close() error {
	// the close is recorded first: a fault injected into Close itself does not undo the call
	q.s.Sink.Emit(vt.Ev{"ev": "qclose", "id": q.id})
	defer q.s.tick(q.ctx, "Close", false)
	q.s.mu.Lock()
	q.s.Closed[q.id]++
	if atomic.LoadInt32(&q.s.returned) == 1 {
		q.s.LateOps = append(q.s.LateOps, fmt.Sprintf("close:%d", q.id))
	}
	q.s.mu.Unlock()
	return nil
}

func (q *querier) Select(sortSeries bool, h *storage.SelectHints, ms ...*labels.Matcher) storage.SeriesSet {
	q.s.tick(q.ctx, "Select", false)
	rec := SelectRec{Mint: q.mint, Maxt: q.maxt}
	for _, m := range ms {
		rec.Matchers = append(rec.Matchers, m.String())
	}
	sort.Strings(rec.Matchers)
	if h != nil {
		rec.Start, rec.End, rec.Step, rec.Range, rec.Func, rec.By = h.Start, h.End, h.Step, h.Range, h.Func, h.By
		rec.Grouping = append([]string{}, h.Grouping...)
	}
	q.s.mu.Lock()
	q.s.Selects = append(q.s.Selects, rec)
	q.s.mu.Unlock()
	var out []Series
	for _, x := range q.s.Series {
		ok := true
		for _, m := range ms {
			if !m.Matches(x.L.Get(m.Name)) {
				ok = false
				break
			}
		}
		if !ok {
			continue
		}
		if q.s.Trim {
			lo := sort.Search(len(x.T), func(i int) bool { return x.T[i] >= q.mint })
			hi := sort.Search(len(x.T), func(i int) bool { return x.T[i] > q.maxt })
			x = Series{L: x.L, T: x.T[lo:hi], V: x.V[lo:hi]}
		}
		if q.s.Prune && h != nil {
			lo := sort.Search(len(x.T), func(i int) bool { return x.T[i] >= h.Start })
			hi := sort.Search(len(x.T), func(i int) bool { return x.T[i] > h.End })
			x = Series{L: x.L, T: x.T[lo:hi], V: x.V[lo:hi]}
		}
		out = append(out, x)
	}
	return &sset{q: q, l: out, i: -1}
}

type sset struct {
	q   *querier
	l   []Series
	i   int
	err error
}

func (x *sset) Next() bool {
	if x.err != nil {
		return false
	}
	if x.q.s.tick(x.q.ctx, "SetNext", true) {
		x.err = x.q.s.failure(x.q.ctx)
		return false
	}
	x.i++
	return x.i < len(x.l)
}
func (x *sset) At() storage.Series         { return &sr{q: x.q, d: x.l[x.i]} }
func (x *sset) Err() error                 { return x.err }
func (x *sset) Warnings() storage.Warnings { return nil }

type sr struct {
	q *querier
	d Series
}

func (x *sr) Labels() labels.Labels { x.q.s.tick(x.q.ctx, "Labels", false); return x.d.L }
func (x *sr) Iterator() chunkenc.Iterator {
	x.q.s.tick(x.q.ctx, "Iterator", false)
	return &it{q: x.q, d: x.d, i: -1}
}

type it struct {
	q   *querier
	d   Series
	i   int
	err error
}

func (x *it) Next() chunkenc.ValueType {
	if x.err != nil {
		return chunkenc.ValNone
	}
	if x.q.s.tick(x.q.ctx, "Next", true) {
		x.err = x.q.s.failure(x.q.ctx)
		return chunkenc.ValNone
	}
	if x.i < len(x.d.T) {
		x.i++
	}
	if x.i < len(x.d.T) {
		return chunkenc.ValFloat
	}
	return chunkenc.ValNone
}
func (x *it) Seek(t int64) chunkenc.ValueType {
	if x.err != nil {
		return chunkenc.ValNone
	}
	if x.q.s.tick(x.q.ctx, "Seek", true) {
		x.err = x.q.s.failure(x.q.ctx)
		return chunkenc.ValNone
	}
	if x.i < 0 {
		x.i = 0
	}
	for x.i < len(x.d.T) && x.d.T[x.i] < t {
		x.i++
	}
	if x.i < len(x.d.T) {
		return chunkenc.ValFloat
	}
	return chunkenc.ValNone
}
func (x *it) At() (int64, float64) {
	x.q.s.tick(x.q.ctx, "At", false)
	return x.d.T[x.i], x.d.V[x.i]
}
func (x *it) AtHistogram() (int64, *histogram.Histogram)           { return 0, nil }
func (x *it) AtFloatHistogram() (int64, *histogram.FloatHistogram) { return 0, nil }
func (x *it) AtT() int64                                           { return x.d.T[x.i] }
func (x *it) Err() error                                           { return x.err }

// ---------------------------------------------------------------------------------------
// observation helpers

// KindsSnapshot returns the kinds of the callbacks seen so far, in order.
func (s *Store) KindsSnapshot() []string {
	s.mu.Lock()
	defer s.mu.Unlock()
	return append([]string{}, s.Kinds...)
}

// SelectKeys returns the set (sorted, de-duplicated) of select descriptions.
func (s *Store) SelectKeys() []string {
	s.mu.Lock()
	defer s.mu.Unlock()
	m := map[string]bool{}
	for _, r := range s.Selects {
		m[r.Key()] = true
	}
	var out []string
	for k := range m {
		out = append(out, k)
	}
	sort.Strings(out)
	return out
}

func (s *Store) SelectRecs() []SelectRec {
	s.mu.Lock()
	defer s.mu.Unlock()
	return append([]SelectRec{}, s.Selects...)
}

// QuerierAccounting returns (opened, number closed exactly once, number never closed, number
// closed more than once, late operations, early operations).
func (s *Store) QuerierAccounting() (opened, once, never, multi int, late, early []string) {
	s.mu.Lock()
	defer s.mu.Unlock()
	for id, n := range s.Opened {
		opened += n
		switch c := s.Closed[id]; {
		case c == 1:
			once++
		case c == 0:
			never++
		default:
			multi++
		}
	}
	return opened, once, never, multi, append([]string{}, s.LateOps...), append([]string{}, s.EarlyOps...)
}

// Snapshot is a deep copy of everything the storage hands out.
type Snapshot struct {
	L [][][2]string
	T [][]int64
	V [][]uint64
}

func (s *Store) Snapshot() Snapshot {
	var sn Snapshot
	for _, x := range s.Series {
		var l [][2]string
		for _, lb := range x.L {
			l = append(l, [2]string{lb.Name, lb.Value})
		}
		sn.L = append(sn.L, l)
		sn.T = append(sn.T, append([]int64{}, x.T...))
		v := make([]uint64, len(x.V))
		for i, f := range x.V {
			v[i] = f64bits(f)
		}
		sn.V = append(sn.V, v)
	}
	return sn
}

// Diff returns a description of the first difference between the store's current contents
// and the snapshot, or "".
func (s *Store) Diff(sn Snapshot) string {
	if len(sn.L) != len(s.Series) {
		return fmt.Sprintf("series count %d -> %d", len(sn.L), len(s.Series))
	}
	for i, x := range s.Series {
		if len(x.L) != len(sn.L[i]) {
			return fmt.Sprintf("series %d: label count %d -> %d (%s)", i, len(sn.L[i]), len(x.L), x.L.String())
		}
		for j, lb := range x.L {
			if lb.Name != sn.L[i][j][0] || lb.Value != sn.L[i][j][1] {
				return fmt.Sprintf("series %d: label %d %s=%q -> %s=%q", i, j, sn.L[i][j][0], sn.L[i][j][1], lb.Name, lb.Value)
			}
		}
		if len(x.T) != len(sn.T[i]) {
			return fmt.Sprintf("series %d: sample count changed", i)
		}
		for j := range x.T {
			if x.T[j] != sn.T[i][j] || f64bits(x.V[j]) != sn.V[i][j] {
				return fmt.Sprintf("series %d: sample %d changed", i, j)
			}
		}
	}
	return ""
}
