// Package vt is the event sink shared by the instrumented storage, the operator wrapper
// and the scenario runner. Events are ordered by one global atomic sequence number, never
// by wall-clock time.
package vt

import (
	"bufio"
	"encoding/json"
	"io"
	"sync"
	"sync/atomic"
)

// Ev is one trace line. Field names are the ones the TLA+ trace specifications read.
type Ev map[string]any

var seq int64

// BaseMs is the time base of the scenario being replayed (the absolute time of its tick 0, set by the runner before
// a scenario starts): every time that goes into a trace is reported relative to it.
var BaseMs int64

// NextSeq returns the next global sequence number.
func NextSeq() int64 { return atomic.AddInt64(&seq, 1) }

// Sink collects events of one scenario (or of one process run).
type Sink struct {
	mu  sync.Mutex
	evs []Ev
}

func (s *Sink) Emit(e Ev) {
	if s == nil {
		return
	}
	if _, ok := e["seq"]; !ok {
		e["seq"] = NextSeq()
	}
	s.mu.Lock()
	s.evs = append(s.evs, e)
	s.mu.Unlock()
}

// Drain returns the collected events and empties the sink.
func (s *Sink) Drain() []Ev {
	s.mu.Lock()
	defer s.mu.Unlock()
	r := s.evs
	s.evs = nil
	return r
}

// Writer writes ndjson.
type Writer struct {
	mu sync.Mutex
	w  *bufio.Writer
	N  int
}

func NewWriter(w io.Writer) *Writer { return &Writer{w: bufio.NewWriterSize(w, 1<<20)} }

func (w *Writer) Write(e Ev) {
	b, err := json.Marshal(e)
	if err != nil {
		panic(err)
	}
	w.mu.Lock()
	w.w.Write(b)
	w.w.WriteByte('\n')
	w.N++
	w.mu.Unlock()
}

func (w *Writer) Flush() { w.mu.Lock(); w.w.Flush(); w.mu.Unlock() }
