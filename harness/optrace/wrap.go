//go:build verif

// Package optrace interposes a recording wrapper at every producer/consumer edge of every
// physical plan the engine builds (hook H1: model.SetVerifWrapRoot). The wrapper walks the
// operator tree by reflection and replaces every field of type model.VectorOperator /
// []model.VectorOperator, so operator kinds added by a future change are observed too.
package optrace

import (
	"context"
	"hash/fnv"
	"math"
	"reflect"
	"runtime"
	"sync"
	"sync/atomic"
	"unsafe"

	"github.com/prometheus/prometheus/model/labels"
	"github.com/prometheus/prometheus/model/value"

	"github.com/thanos-community/promql-engine/execution/model"

	"verifharness/vt"
)

// Mode of the wrapper for the next queries.
type Mode struct {
	Record      bool // record events
	SeriesFirst bool // call Series() before the first Next() on every operator
	ProbeEnd    bool // after an operator signalled end, call Next once more and record it
	Yield       func(op int, call string)
}

var (
	cur     atomic.Value // *state
	opIface = reflect.TypeOf((*model.VectorOperator)(nil)).Elem()
	qidGen  int64
)

type state struct {
	mode Mode
	sink *vt.Sink
}

// Install registers the hook. Call once per process.
func Install() { model.SetVerifWrapRoot(wrapRoot) }

// Configure sets the mode and sink for plans built from now on.
func Configure(m Mode, sink *vt.Sink) { cur.Store(&state{mode: m, sink: sink}) }

// Disable stops wrapping.
func Disable() { cur.Store((*state)(nil)) }

// LastQueryID returns the id given to the most recently built plan.
func LastQueryID() int64 { return atomic.LoadInt64(&qidGen) }

type opInfo struct {
	ID       int    `json:"id"`
	Kind     string `json:"kind"`
	Children []int  `json:"ch"`
	Pinned   bool   `json:"pinned"` // below a step-invariant operator: grid is the single step `start`
}

type builder struct {
	st   *state
	qid  int64
	ops  []opInfo
	next int
}

type wrapOp struct {
	st    *state
	qid   int64
	id    int
	kind  string
	inner model.VectorOperator

	mu         sync.Mutex
	seriesDone bool
	ended      bool
	probed     bool
}

func wrapRoot(root model.VectorOperator, query string, start, end, step int64) model.VectorOperator {
	st, _ := cur.Load().(*state)
	if st == nil || !st.mode.Record {
		return root
	}
	b := &builder{st: st, qid: atomic.AddInt64(&qidGen, 1)}
	w := b.wrap(root, false)
	st.sink.Emit(vt.Ev{"ev": "plan", "q": b.qid, "query": query, "start": start - vt.BaseMs, "end": end - vt.BaseMs, "step": step,
		"root": w.(*wrapOp).id, "ops": b.ops})
	return w
}

func (b *builder) wrap(op model.VectorOperator, pinned bool) model.VectorOperator {
	if op == nil {
		return nil
	}
	if w, ok := op.(*wrapOp); ok {
		return w
	}
	me, _ := op.Explain()
	childPinned := pinned || me == "[*stepInvariantOperator]"
	var children []int
	v := reflect.ValueOf(op)
	if v.Kind() == reflect.Ptr && v.Elem().Kind() == reflect.Struct {
		e := v.Elem()
		for i := 0; i < e.NumField(); i++ {
			f := e.Field(i)
			switch {
			case f.Type() == opIface:
				ff := reflect.NewAt(f.Type(), unsafe.Pointer(f.UnsafeAddr())).Elem()
				if !ff.IsNil() {
					c := b.wrap(ff.Interface().(model.VectorOperator), childPinned)
					ff.Set(reflect.ValueOf(c))
					children = append(children, c.(*wrapOp).id)
				}
			case f.Kind() == reflect.Slice && f.Type().Elem() == opIface:
				ff := reflect.NewAt(f.Type(), unsafe.Pointer(f.UnsafeAddr())).Elem()
				for j := 0; j < ff.Len(); j++ {
					c := ff.Index(j)
					if !c.IsNil() {
						cw := b.wrap(c.Interface().(model.VectorOperator), childPinned)
						c.Set(reflect.ValueOf(cw))
						children = append(children, cw.(*wrapOp).id)
					}
				}
			case f.Kind() == reflect.Ptr && f.Type().Elem().Kind() == reflect.Struct:
				// operators embedded by pointer to a concrete type (e.g. remote.Execution holds
				// its selector through the interface already); nothing to do.
			}
		}
	}
	b.next++
	id := b.next
	if children == nil {
		children = []int{}
	}
	b.ops = append(b.ops, opInfo{ID: id, Kind: me, Children: children, Pinned: pinned})
	return &wrapOp{st: b.st, qid: b.qid, id: id, kind: me, inner: op}
}

func digest(ls []labels.Labels) int64 {
	h := fnv.New64a()
	for _, l := range ls {
		for _, x := range l {
			h.Write([]byte(x.Name))
			h.Write([]byte{0})
			h.Write([]byte(x.Value))
			h.Write([]byte{1})
		}
		h.Write([]byte{2})
	}
	return int64(h.Sum64() >> 12) // fits a TLC integer? no: keep it small
}

func (w *wrapOp) Series(ctx context.Context) ([]labels.Labels, error) {
	s0 := vt.NextSeq()
	if y := w.st.mode.Yield; y != nil {
		y(w.id, "series")
	}
	r, err := w.inner.Series(ctx)
	ev := vt.Ev{"ev": "series", "q": w.qid, "op": w.id, "seq0": s0, "n": len(r), "dg": digest(r) % 1000000007, "err": errClass(err)}
	ev["seq"] = vt.NextSeq()
	w.st.sink.Emit(ev)
	return r, err
}

func errClass(err error) string {
	if err == nil {
		return ""
	}
	if err == context.Canceled || err == context.DeadlineExceeded {
		return "ctx"
	}
	return "err"
}

// valClass: "v" ordinary, "stale" staleness marker.
func (w *wrapOp) Next(ctx context.Context) ([]model.StepVector, error) {
	if w.st.mode.SeriesFirst {
		w.mu.Lock()
		first := !w.seriesDone
		w.seriesDone = true
		w.mu.Unlock()
		if first {
			w.Series(ctx)
		}
	}
	s0 := vt.NextSeq()
	if y := w.st.mode.Yield; y != nil {
		y(w.id, "next")
		runtime.Gosched()
	}
	r, err := w.inner.Next(ctx)
	ev := vt.Ev{"ev": "next", "q": w.qid, "op": w.id, "seq0": s0, "err": errClass(err)}
	switch {
	case err != nil:
		ev["ret"] = "err"
		ev["b"] = []any{}
	case r == nil:
		ev["ret"] = "end"
		ev["b"] = []any{}
	default:
		ev["ret"] = "batch"
		b := make([]any, 0, len(r))
		for _, v := range r {
			stale := 0
			for _, x := range v.Samples {
				if math.Float64bits(x) == value.StaleNaN {
					stale++
				}
			}
			ids := make([]uint64, len(v.SampleIDs))
			copy(ids, v.SampleIDs)
			b = append(b, map[string]any{"t": v.T - vt.BaseMs, "ids": ids, "nv": len(v.Samples), "stale": stale})
		}
		ev["b"] = b
	}
	ev["seq"] = vt.NextSeq()
	w.st.sink.Emit(ev)
	if err == nil && r == nil && w.st.mode.ProbeEnd {
		w.mu.Lock()
		do := !w.probed
		w.probed = true
		w.mu.Unlock()
		if do {
			p0 := vt.NextSeq()
			pr, perr := w.inner.Next(ctx)
			pe := vt.Ev{"ev": "next", "q": w.qid, "op": w.id, "seq0": p0, "err": errClass(perr), "probe": true, "b": []any{}}
			switch {
			case perr != nil:
				pe["ret"] = "err"
			case pr == nil:
				pe["ret"] = "end"
			default:
				pe["ret"] = "batch"
				pe["b"] = []any{map[string]any{"t": int64(-1), "ids": []uint64{}, "nv": 0, "stale": 0}}
			}
			pe["seq"] = vt.NextSeq()
			w.st.sink.Emit(pe)
		}
	}
	return r, err
}

func (w *wrapOp) GetPool() *model.VectorPool { return w.inner.GetPool() }
func (w *wrapOp) Explain() (string, []model.VectorOperator) {
	return w.inner.Explain()
}
