module verifharness

go 1.19

require (
	github.com/go-kit/log v0.2.1
	github.com/prometheus/client_golang v1.13.1
	github.com/prometheus/client_model v0.3.0
	github.com/prometheus/prometheus v0.40.1
	github.com/thanos-community/promql-engine v0.0.0
)

require (
	github.com/PuerkitoBio/purell v1.1.1 // indirect
	github.com/PuerkitoBio/urlesc v0.0.0-20170810143723-de5bf2ad4578 // indirect
	github.com/alecthomas/units v0.0.0-20211218093645-b94a6e3cc137 // indirect
	github.com/asaskevich/govalidator v0.0.0-20210307081110-f21760c49a8d // indirect
	github.com/aws/aws-sdk-go v1.44.128 // indirect
	github.com/beorn7/perks v1.0.1 // indirect
	github.com/cespare/xxhash/v2 v2.1.2 // indirect
	github.com/davecgh/go-spew v1.1.1 // indirect
	github.com/dennwc/varint v1.0.0 // indirect
	github.com/edsrzf/mmap-go v1.1.0 // indirect
	github.com/efficientgo/core v1.0.0-rc.0 // indirect
	github.com/felixge/httpsnoop v1.0.3 // indirect
	github.com/go-logfmt/logfmt v0.5.1 // indirect
	github.com/go-logr/logr v1.2.3 // indirect
	github.com/go-logr/stdr v1.2.2 // indirect
	github.com/go-openapi/analysis v0.21.2 // indirect
	github.com/go-openapi/errors v0.20.2 // indirect
	github.com/go-openapi/jsonpointer v0.19.5 // indirect
	github.com/go-openapi/jsonreference v0.19.6 // indirect
	github.com/go-openapi/loads v0.21.1 // indirect
	github.com/go-openapi/spec v0.20.4 // indirect
	github.com/go-openapi/strfmt v0.21.3 // indirect
	github.com/go-openapi/swag v0.21.1 // indirect
	github.com/go-openapi/validate v0.21.0 // indirect
	github.com/gogo/protobuf v1.3.2 // indirect
	github.com/golang/protobuf v1.5.2 // indirect
	github.com/golang/snappy v0.0.4 // indirect
	github.com/grafana/regexp v0.0.0-20221005093135-b4c2bcb0a4b6 // indirect
	github.com/jmespath/go-jmespath v0.4.0 // indirect
	github.com/josharian/intern v1.0.0 // indirect
	github.com/jpillora/backoff v1.0.0 // indirect
	github.com/json-iterator/go v1.1.12 // indirect
	github.com/julienschmidt/httprouter v1.3.0 // indirect
	github.com/mailru/easyjson v0.7.7 // indirect
	github.com/matttproud/golang_protobuf_extensions v1.0.2-0.20181231171920-c182affec369 // indirect
	github.com/mitchellh/mapstructure v1.5.0 // indirect
	github.com/modern-go/concurrent v0.0.0-20180306012644-bacd9c7ef1dd // indirect
	github.com/modern-go/reflect2 v1.0.2 // indirect
	github.com/mwitkow/go-conntrack v0.0.0-20190716064945-2f068394615f // indirect
	github.com/oklog/ulid v1.3.1 // indirect
	github.com/pkg/errors v0.9.1 // indirect
	github.com/pmezard/go-difflib v1.0.0 // indirect
	github.com/prometheus/alertmanager v0.24.0 // indirect
	github.com/prometheus/common v0.37.0 // indirect
	github.com/prometheus/common/sigv4 v0.1.0 // indirect
	github.com/prometheus/procfs v0.8.0 // indirect
	github.com/stretchr/testify v1.8.1 // indirect
	go.mongodb.org/mongo-driver v1.10.2 // indirect
	go.opentelemetry.io/contrib/instrumentation/net/http/otelhttp v0.36.4 // indirect
	go.opentelemetry.io/otel v1.11.1 // indirect
	go.opentelemetry.io/otel/metric v0.33.0 // indirect
	go.opentelemetry.io/otel/trace v1.11.1 // indirect
	go.uber.org/atomic v1.10.0 // indirect
	go.uber.org/goleak v1.2.0 // indirect
	golang.org/x/exp v0.0.0-20221031165847-c99f073a8326 // indirect
	golang.org/x/net v0.1.0 // indirect
	golang.org/x/oauth2 v0.1.0 // indirect
	golang.org/x/sync v0.1.0 // indirect
	golang.org/x/sys v0.1.0 // indirect
	golang.org/x/text v0.4.0 // indirect
	golang.org/x/time v0.1.0 // indirect
	gonum.org/v1/gonum v0.12.0 // indirect
	google.golang.org/protobuf v1.28.1 // indirect
	gopkg.in/yaml.v2 v2.4.0 // indirect
	gopkg.in/yaml.v3 v3.0.1 // indirect
)

replace github.com/thanos-community/promql-engine => /repo
