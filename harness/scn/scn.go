// Package scn defines the scenario format exchanged with the TLA+ specifications: datasets,
// query plans as node sequences in topological order (children have smaller indices), the
// evaluation window and the configuration. The same encoding is produced by the TLC
// generators (Gen_*.tla), consumed by the replayer, and written into the trace header that
// the trace specifications evaluate PromQLRef on.
package scn

import (
	"fmt"
	"hash/fnv"
	"math"
	"sort"
	"strconv"
	"strings"
	"time"

	"github.com/prometheus/prometheus/model/labels"
	"github.com/prometheus/prometheus/model/value"
	"github.com/prometheus/prometheus/promql/parser"
)

// Sample kinds: "f" float (V is the integer value, or V/2 when H is set... see Val),
// "s" staleness marker, "nan", "pinf", "ninf".
type Sample struct {
	T int64  `json:"t"` // ticks
	K string `json:"k"`
	V int64  `json:"v"`
}

// Val returns the float64 the storage holds for the sample.
func (s Sample) Val() float64 {
	switch s.K {
	case "s":
		return math.Float64frombits(value.StaleNaN)
	case "nan":
		return math.NaN()
	case "nan2": // a NaN with another bit pattern (sign bit set, no payload) - neither math.NaN() nor the staleness marker
		return math.Float64frombits(0xFFF8000000000000)
	case "nz": // negative zero
		return math.Copysign(0, -1)
	case "pinf":
		return math.Inf(1)
	case "ninf":
		return math.Inf(-1)
	case "h": // halves: V/2
		return float64(s.V) / 2
	case "big": // magnitudes outside the comparison-safe range
		return float64(s.V) * 1e307
	case "tiny": // denormals
		return float64(s.V) * 5e-324
	}
	return float64(s.V)
}

type DSeries struct {
	LS  [][]string `json:"ls"` // sorted [name, value] pairs
	Smp []Sample   `json:"smp"`
}

func (d DSeries) Labels() labels.Labels {
	var l labels.Labels
	for _, p := range d.LS {
		l = append(l, labels.Label{Name: p[0], Value: p[1]})
	}
	sort.Sort(l)
	return l
}

// Matcher: T in "=", "!=", "=~", "!~". Acc lists, for regex matchers, the strings of the
// scenario's value universe (always including "") that the anchored pattern accepts.
type Matcher struct {
	N   string   `json:"n"`
	T   string   `json:"t"`
	V   string   `json:"v"`
	Acc []string `json:"acc"`
}

// Node is uniform: every field is always present so that TLC can hold nodes in sets.
type Node struct {
	Op   string    `json:"op"`   // sel rfn fn agg bin num neg paren str sub
	Fn   string    `json:"fn"`   // function / aggregator / operator name
	M    []Matcher `json:"m"`    // selector matchers (sel, rfn)
	Off  int64     `json:"off"`  // offset, ticks
	Atk  string    `json:"atk"`  // none lit start end
	At   int64     `json:"at"`   // @ literal, ticks
	Rng  int64     `json:"rng"`  // range, ticks (rfn)
	Args []int     `json:"args"` // child node indices (1-based)
	By   bool      `json:"by"`
	Grp  []string  `json:"grp"`
	Bool bool      `json:"bool"`
	Card string    `json:"card"` // 1:1 N:1 1:N N:N
	On   bool      `json:"on"`
	ML   []string  `json:"ml"`
	Inc  []string  `json:"inc"`
	V    int64     `json:"v"`  // integer literal value (num)
	VS   string    `json:"vs"` // literal text when not an integer ("" otherwise)
}

type Scenario struct {
	ID     string    `json:"id"`
	Fam    string    `json:"fam"`
	TickMs int64     `json:"tickms"`
	Data   []DSeries `json:"data"`
	Plan   []Node    `json:"plan"`
	Q      string    `json:"q,omitempty"` // query text; derived from Plan when empty
	Start  int64     `json:"start"`       // ticks
	End    int64     `json:"end"`
	Step   int64     `json:"step"` // 0 = instant query at Start
	LB     int64     `json:"lb"`   // engine lookback, ticks
	QLB    int64     `json:"qlb"`  // per-query lookback, ticks (0 = none)
	// free-form configuration for the family (procs, optimizer set, partition, faults, ...)
	Cfg map[string]any `json:"cfg,omitempty"`
}

func (s *Scenario) Ms(t int64) int64             { return t * s.TickMs }
func (s *Scenario) Time(t int64) time.Time       { return time.UnixMilli(s.Abs(t)) }
func (s *Scenario) Dur(t int64) time.Duration    { return time.Duration(t*s.TickMs) * time.Millisecond }
func (s *Scenario) IsInstant() bool              { return s.Step == 0 }
func (s *Scenario) CfgInt(k string, def int) int { return cfgInt(s.Cfg, k, def) }

// BaseMs0 is a present-day time (2023-11-14T22:13:30Z), a multiple of every tick length in use.
const BaseMs0 = 1_700_000_010_000

// Base is the time of tick 0 in milliseconds since the epoch: 0 for three scenarios in four and for scenarios given as
// text (their @ literals are absolute), a present-day time for every fourth plan-based scenario (a pure function of
// its id) - its data, its window and its @ literals are all moved there.
func (s *Scenario) Base() int64 {
	if v, ok := s.Cfg["base"]; ok {
		if f, ok := v.(float64); ok {
			return int64(f)
		}
	}
	if s.Q != "" || len(s.Plan) == 0 {
		return 0
	}
	h := fnv.New32a()
	h.Write([]byte(s.ID))
	if (h.Sum32()>>15)%4 == 0 {
		return BaseMs0
	}
	return 0
}

// Abs is the absolute time of tick t in milliseconds.
func (s *Scenario) Abs(t int64) int64 { return s.Base() + t*s.TickMs }

// Procs is the GOMAXPROCS setting of a scenario: the one it asks for, else 1, 2, 3, 4 or 8 (1, 1, 1, 2
// or 4 shards per selector) as a pure function of its id.
func (s *Scenario) Procs() int {
	if v := cfgInt(s.Cfg, "procs", 0); v > 0 {
		return v
	}
	h := fnv.New32a()
	h.Write([]byte(s.ID))
	return []int{4, 2, 8, 1, 4, 3}[(h.Sum32()>>3)%6]
}
func (s *Scenario) CfgStr(k string, d string) string { return cfgStr(s.Cfg, k, d) }

func cfgInt(m map[string]any, k string, def int) int {
	if v, ok := m[k]; ok {
		switch x := v.(type) {
		case float64:
			return int(x)
		case int:
			return x
		case int64:
			return int(x)
		}
	}
	return def
}
func cfgStr(m map[string]any, k string, def string) string {
	if v, ok := m[k]; ok {
		if s, ok := v.(string); ok {
			return s
		}
	}
	return def
}

// ---------------------------------------------------------------------------------------
// Plan -> PromQL text

func durText(ms int64) string {
	if ms == 0 {
		return "0s"
	}
	neg := ""
	if ms < 0 {
		neg = "-"
		ms = -ms
	}
	if ms%1000 == 0 {
		return fmt.Sprintf("%s%ds", neg, ms/1000)
	}
	return fmt.Sprintf("%s%dms", neg, ms)
}

func (s *Scenario) selText(n Node) string {
	var name string
	var ms []string
	names := 0
	for _, m := range n.M {
		if m.N == "__name__" {
			names++
		}
	}
	for _, m := range n.M {
		// (with several matchers on the metric name all of them go inside the braces: the parser
		// rejects a name given twice)
		if names == 1 && m.N == "__name__" && m.T == "=" && name == "" && isIdent(m.V) {
			name = m.V
			continue
		}
		ms = append(ms, fmt.Sprintf("%s%s%s", m.N, m.T, strconv.Quote(m.V)))
	}
	out := name
	if len(ms) > 0 || name == "" {
		out += "{" + strings.Join(ms, ",") + "}"
	}
	if n.Op == "rfn" || n.Rng > 0 {
		out += "[" + durText(s.Ms(n.Rng)) + "]"
	}
	if n.Off != 0 {
		out += " offset " + durText(s.Ms(n.Off))
	}
	switch n.Atk {
	case "lit":
		out += fmt.Sprintf(" @ %.3f", float64(s.Abs(n.At))/1000)
	case "start":
		out += " @ start()"
	case "end":
		out += " @ end()"
	}
	return out
}

func isIdent(s string) bool {
	if s == "" {
		return false
	}
	for i, r := range s {
		if !(r == '_' || r == ':' || (r >= 'a' && r <= 'z') || (r >= 'A' && r <= 'Z') || (i > 0 && r >= '0' && r <= '9')) {
			return false
		}
	}
	switch s {
	case "on", "ignoring", "group_left", "group_right", "by", "without", "bool", "offset", "and", "or", "unless", "atan2", "inf", "nan":
		return false
	}
	return true
}

// operandText renders operand c of the binary node i. Operands that need them (nested binary
// expressions, unary minus, negative literals) always get parentheses; the others get them in
// one scenario out of three (a pure function of the scenario's id and the node), so that both
// `a + b` - operands the optimizers, the hint propagation and the planner see directly - and
// `(a) + (b)` are exercised.
func (s *Scenario) operandText(i, c int) string {
	t := s.Text(c)
	switch n := s.Plan[c-1]; {
	case n.Op == "bin" || n.Op == "neg":
		return "(" + t + ")"
	case n.Op == "num" && (strings.HasPrefix(t, "-") || strings.HasPrefix(t, "+")):
		return "(" + t + ")"
	case n.Op == "paren":
		return t
	}
	if s.CfgInt("bare", 0) == 1 {
		return t // the scenario is about operands that are seen directly
	}
	h := fnv.New32a()
	h.Write([]byte(s.ID))
	if (h.Sum32()+uint32(i)*7+uint32(c))%3 == 0 {
		return "(" + t + ")"
	}
	return t
}

// Text renders node i (1-based) of the plan as PromQL.
func (s *Scenario) Text(i int) string {
	n := s.Plan[i-1]
	switch n.Op {
	case "sel":
		return s.selText(n)
	case "rfn":
		return n.Fn + "(" + s.selText(n) + ")"
	case "num":
		if n.VS != "" {
			return n.VS
		}
		return strconv.FormatInt(n.V, 10)
	case "str":
		return strconv.Quote(n.VS)
	case "neg":
		return "-" + s.Text(n.Args[0])
	case "paren":
		if n.Fn == "+" { // unary plus: evaluates to its operand
			c := s.Plan[n.Args[0]-1]
			if c.Op == "bin" {
				return "+(" + s.Text(n.Args[0]) + ")"
			}
			return "+" + s.Text(n.Args[0])
		}
		return "(" + s.Text(n.Args[0]) + ")"
	case "fn":
		var a []string
		for _, c := range n.Args {
			a = append(a, s.Text(c))
		}
		return n.Fn + "(" + strings.Join(a, ", ") + ")"
	case "agg":
		mod := ""
		if n.By {
			if len(n.Grp) > 0 || n.Bool { // Bool doubles as "explicit by ()"
				mod = " by (" + strings.Join(n.Grp, ", ") + ")"
			}
		} else {
			mod = " without (" + strings.Join(n.Grp, ", ") + ")"
		}
		var a []string
		for _, c := range n.Args {
			a = append(a, s.Text(c))
		}
		return n.Fn + mod + " (" + strings.Join(a, ", ") + ")"
	case "bin":
		mod := ""
		if n.Bool {
			mod += " bool"
		}
		if n.On {
			mod += " on (" + strings.Join(n.ML, ", ") + ")"
		} else if len(n.ML) > 0 || n.Card == "N:1" || n.Card == "1:N" {
			mod += " ignoring (" + strings.Join(n.ML, ", ") + ")"
		}
		switch n.Card {
		case "N:1":
			mod += " group_left (" + strings.Join(n.Inc, ", ") + ")"
		case "1:N":
			mod += " group_right (" + strings.Join(n.Inc, ", ") + ")"
		}
		return s.operandText(i, n.Args[0]) + " " + n.Fn + mod + " " + s.operandText(i, n.Args[1])
	case "sub":
		return "(" + s.Text(n.Args[0]) + ")[" + durText(s.Ms(n.Rng)) + ":" + durText(s.Ms(n.V)) + "]"
	}
	return "<?" + n.Op + ">"
}

// Query returns the query text of the scenario.
func (s *Scenario) Query() string {
	if s.Q != "" {
		return s.Q
	}
	return s.Text(len(s.Plan))
}

// ---------------------------------------------------------------------------------------
// AST -> plan (for scenarios generated on the Go side; also used as a round-trip check)

type conv struct {
	s     *Scenario
	nodes []Node
	uni   []string // value universe for regex acceptance sets
	ok    bool
	why   string
}

func blank(op string) Node {
	return Node{Op: op, M: []Matcher{}, Args: []int{}, Grp: []string{}, ML: []string{}, Inc: []string{}, Atk: "none", Card: "1:1"}
}

// FromExpr converts a parsed expression into plan nodes. ok=false when the expression uses a
// construct outside the node alphabet or durations that are not whole ticks.
func FromExpr(s *Scenario, e parser.Expr, universe []string) ([]Node, bool, string) {
	c := &conv{s: s, uni: universe, ok: true}
	c.walk(e)
	return c.nodes, c.ok, c.why
}

func (c *conv) fail(w string) int {
	if c.ok {
		c.ok = false
		c.why = w
	}
	c.nodes = append(c.nodes, blank("str"))
	return len(c.nodes)
}

func (c *conv) ticks(d time.Duration) int64 {
	ms := d.Milliseconds()
	if c.s.TickMs == 0 || ms%c.s.TickMs != 0 {
		c.ok = false
		c.why = "duration not on tick grid"
		return 0
	}
	return ms / c.s.TickMs
}

func (c *conv) sel(n *Node, vs *parser.VectorSelector) {
	for _, m := range vs.LabelMatchers {
		mm := Matcher{N: m.Name, T: m.Type.String(), V: m.Value, Acc: []string{}}
		if m.Type == labels.MatchRegexp || m.Type == labels.MatchNotRegexp {
			pos := labels.MustNewMatcher(labels.MatchRegexp, m.Name, m.Value)
			for _, u := range c.uni {
				if pos.Matches(u) {
					mm.Acc = append(mm.Acc, u)
				}
			}
		}
		n.M = append(n.M, mm)
	}
	n.Off = c.ticks(vs.OriginalOffset)
	switch {
	case vs.StartOrEnd == parser.START:
		n.Atk = "start"
	case vs.StartOrEnd == parser.END:
		n.Atk = "end"
	case vs.Timestamp != nil:
		n.Atk = "lit"
		if rel := *vs.Timestamp - c.s.Base(); c.s.TickMs == 0 || rel%c.s.TickMs != 0 {
			c.ok, c.why = false, "@ not on tick grid"
		} else {
			n.At = rel / c.s.TickMs
		}
	}
}

func (c *conv) walk(e parser.Expr) int {
	switch x := e.(type) {
	case *parser.VectorSelector:
		n := blank("sel")
		c.sel(&n, x)
		c.nodes = append(c.nodes, n)
	case *parser.NumberLiteral:
		n := blank("num")
		if x.Val == math.Trunc(x.Val) && math.Abs(x.Val) < 1e15 {
			n.V = int64(x.Val)
		} else {
			n.VS = strconv.FormatFloat(x.Val, 'g', -1, 64)
			switch {
			case math.IsNaN(x.Val):
				n.VS = "NaN"
			case math.IsInf(x.Val, 1):
				n.VS = "Inf"
			case math.IsInf(x.Val, -1):
				n.VS = "-Inf"
			}
		}
		c.nodes = append(c.nodes, n)
	case *parser.StringLiteral:
		n := blank("str")
		n.VS = x.Val
		c.nodes = append(c.nodes, n)
	case *parser.ParenExpr:
		a := c.walk(x.Expr)
		n := blank("paren")
		n.Args = []int{a}
		c.nodes = append(c.nodes, n)
	case *parser.UnaryExpr:
		a := c.walk(x.Expr)
		if x.Op == parser.ADD {
			n := blank("paren") // +x is x
			n.Fn = "+"
			n.Args = []int{a}
			c.nodes = append(c.nodes, n)
		} else {
			n := blank("neg")
			n.Args = []int{a}
			c.nodes = append(c.nodes, n)
		}
	case *parser.Call:
		if len(x.Args) == 1 {
			if ms, ok := x.Args[0].(*parser.MatrixSelector); ok {
				n := blank("rfn")
				n.Fn = x.Func.Name
				c.sel(&n, ms.VectorSelector.(*parser.VectorSelector))
				n.Rng = c.ticks(ms.Range)
				c.nodes = append(c.nodes, n)
				return len(c.nodes)
			}
		}
		n := blank("fn")
		n.Fn = x.Func.Name
		for _, a := range x.Args {
			if _, ok := a.(*parser.MatrixSelector); ok {
				return c.fail("matrix selector in multi-argument call")
			}
			n.Args = append(n.Args, c.walk(a))
		}
		c.nodes = append(c.nodes, n)
	case *parser.AggregateExpr:
		n := blank("agg")
		n.Fn = x.Op.String()
		if x.Param != nil {
			n.Args = append(n.Args, c.walk(x.Param))
		}
		n.Args = append(n.Args, c.walk(x.Expr))
		n.By = !x.Without
		n.Grp = append([]string{}, x.Grouping...)
		c.nodes = append(c.nodes, n)
	case *parser.BinaryExpr:
		l := c.walk(x.LHS)
		r := c.walk(x.RHS)
		n := blank("bin")
		n.Fn = x.Op.String()
		n.Args = []int{l, r}
		n.Bool = x.ReturnBool
		if x.VectorMatching != nil {
			n.On = x.VectorMatching.On
			n.ML = append([]string{}, x.VectorMatching.MatchingLabels...)
			n.Inc = append([]string{}, x.VectorMatching.Include...)
			switch x.VectorMatching.Card {
			case parser.CardOneToOne:
				n.Card = "1:1"
			case parser.CardManyToOne:
				n.Card = "N:1"
			case parser.CardOneToMany:
				n.Card = "1:N"
			case parser.CardManyToMany:
				n.Card = "N:N"
			}
		}
		c.nodes = append(c.nodes, n)
	case *parser.SubqueryExpr:
		return c.fail("subquery")
	case *parser.StepInvariantExpr:
		return c.walk(x.Expr)
	default:
		return c.fail(fmt.Sprintf("%T", e))
	}
	return len(c.nodes)
}
