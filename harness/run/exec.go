package run

import (
	"context"
	"fmt"
	"hash/fnv"
	"io"
	"strings"
	"time"

	"github.com/go-kit/log"
	"github.com/prometheus/client_golang/prometheus"
	"github.com/prometheus/prometheus/promql"
	"github.com/prometheus/prometheus/promql/parser"
	"github.com/prometheus/prometheus/storage"

	"github.com/thanos-community/promql-engine/engine"
	"github.com/thanos-community/promql-engine/logicalplan"

	"verifharness/scn"
	"verifharness/vstore"
)

// PromOpts are the reference-engine options shared by both engines.
func PromOpts(lookback time.Duration) promql.EngineOpts {
	return promql.EngineOpts{
		Logger:               log.NewNopLogger(),
		Timeout:              time.Hour,
		MaxSamples:           1e10,
		EnableNegativeOffset: true,
		EnableAtModifier:     true,
		LookbackDelta:        lookback,
		// subqueries without a step (`m[4s:]`) take the default evaluation interval: 2 s
		NoStepSubqueryIntervalFn: func(int64) int64 { return 2000 },
	}
}

// Optimizers maps a name to an optimizer list.
func Optimizers(name string) []logicalplan.Optimizer {
	switch name {
	case "none":
		return logicalplan.NoOptimizers
	case "default", "":
		return nil // engine default
	case "all":
		return logicalplan.AllOptimizers
	case "sort":
		return []logicalplan.Optimizer{logicalplan.SortMatchers{}}
	case "merge":
		return []logicalplan.Optimizer{logicalplan.MergeSelectsOptimizer{}}
	case "propagate":
		return []logicalplan.Optimizer{logicalplan.PropagateMatchersOptimizer{}}
	case "merge+propagate":
		return []logicalplan.Optimizer{logicalplan.MergeSelectsOptimizer{}, logicalplan.PropagateMatchersOptimizer{}}
	case "propagate+merge":
		return []logicalplan.Optimizer{logicalplan.PropagateMatchersOptimizer{}, logicalplan.MergeSelectsOptimizer{}}
	}
	panic("unknown optimizer set " + name)
}

// Store builds the instrumented storage for a scenario's dataset.
// Store builds the storage of a scenario. In every other scenario (a pure function of its id) the
// storage hands out only the samples inside the time range of the querier that was opened, as a
// TSDB does - series without a sample in that range then come back empty.
func Store(sc *scn.Scenario) *vstore.Store {
	st := vstore.New(SeriesOf(sc, sc.Data))
	h := fnv.New32a()
	h.Write([]byte(sc.ID))
	st.Trim = h.Sum32()%2 == 1
	return st
}

func SeriesOf(sc *scn.Scenario, data []scn.DSeries) []vstore.Series {
	var ss []vstore.Series
	for _, d := range data {
		s := vstore.Series{L: d.Labels()}
		for _, p := range d.Smp {
			s.T = append(s.T, sc.Abs(p.T))
			s.V = append(s.V, p.Val())
		}
		ss = append(ss, s)
	}
	return ss
}

// EngineOpts builds the options of the engine under test for a scenario.
func EngineOpts(sc *scn.Scenario, optimizers string, disableFallback bool, reg prometheus.Registerer) engine.Opts {
	o := engine.Opts{
		EngineOpts:        withReg(PromOpts(sc.Dur(sc.LB)), reg),
		LogicalOptimizers: Optimizers(optimizers),
		DisableFallback:   disableFallback,
	}
	// a sample budget (EngineOpts.MaxSamples) when the scenario asks for one
	if v := sc.CfgInt("maxsamples", 0); v > 0 {
		o.EngineOpts.MaxSamples = v
	}
	// one scenario in four (by id): the engine explains every plan it builds to a debug writer
	if idBits(sc, 11)%4 == 0 {
		o.DebugWriter = io.Discard
	}
	return o
}

func idBits(sc *scn.Scenario, shift uint) uint32 {
	h := fnv.New32a()
	h.Write([]byte(sc.ID))
	return h.Sum32() >> shift
}

func withReg(o promql.EngineOpts, reg prometheus.Registerer) promql.EngineOpts {
	o.Reg = reg
	return o
}

// QueryEngine is what both engines implement.
type QueryEngine interface {
	NewInstantQuery(q storage.Queryable, opts *promql.QueryOpts, qs string, ts time.Time) (promql.Query, error)
	NewRangeQuery(q storage.Queryable, opts *promql.QueryOpts, qs string, start, end time.Time, interval time.Duration) (promql.Query, error)
}

// Outcome of one execution.
type Outcome struct {
	CreateErr error
	Path      string // native | fallback | ref | rejected
	Res       *promql.Result
	C         CResult
	Wall      time.Duration
}

func qopts(sc *scn.Scenario) *promql.QueryOpts {
	if sc.QLB > 0 {
		return &promql.QueryOpts{LookbackDelta: sc.Dur(sc.QLB)}
	}
	return nil
}

// Create creates the query for the scenario's window.
func Create(e QueryEngine, st storage.Queryable, sc *scn.Scenario) (promql.Query, error) {
	q := sc.Query()
	if sc.IsInstant() {
		ts := sc.Time(sc.Start)
		if subMilli(sc) {
			ts = ts.Add(700 * time.Microsecond)
		}
		return e.NewInstantQuery(st, qopts(sc), q, ts)
	}
	step := sc.Dur(sc.Step)
	if ns := sc.CfgInt("stepns", 0); ns > 0 {
		// a step given in nanoseconds (the API takes a time.Duration: below a millisecond it rounds to 0 ms)
		step = time.Duration(ns)
	}
	start, end := sc.Time(sc.Start), sc.Time(sc.End)
	if subMilli(sc) {
		// the API takes time.Time values: a fraction of a millisecond on either end (more on the start than
		// on the end) belongs to the same millisecond
		start, end = start.Add(900*time.Microsecond), end.Add(100*time.Microsecond)
	}
	if sc.CfgInt("swap", 0) == 1 {
		start, end = end, start
	}
	return e.NewRangeQuery(st, qopts(sc), q, start, end, step)
}

// PreEpochSubMilli: the window is asked for with sub-millisecond fractions and begins before the epoch. The pinned
// reference converts time.Time to milliseconds by truncating toward zero (UnixNano / 1e6: -5999.1 ms -> -5999), the
// engine floors (UnixMilli: -6000): their step grids are a millisecond apart. A comparison made in that situation
// carries this mark (KNOWN_FINDINGS: preepoch-subms).
func PreEpochSubMilli(sc *scn.Scenario) bool { return subMilli(sc) && sc.Abs(sc.Start) < 0 }

// subMilli: one scenario in four (by id) is asked for with sub-millisecond fractions on its window.
func subMilli(sc *scn.Scenario) bool {
	h := fnv.New32a()
	h.Write([]byte(sc.ID))
	return (h.Sum32()>>7)%4 == 0
}

// PathOf classifies the query object returned by the engine under test.
func PathOf(q promql.Query) string {
	if q == nil {
		return "rejected"
	}
	if strings.Contains(fmt.Sprintf("%T", q), "compatibilityQuery") {
		return "native"
	}
	return "fallback"
}

// Exec creates, executes and closes; panics of the Exec goroutine propagate to the caller.
func Exec(ctx context.Context, e QueryEngine, st storage.Queryable, sc *scn.Scenario, isRef bool) Outcome {
	t0 := time.Now()
	q, err := Create(e, st, sc)
	if err != nil {
		return Outcome{CreateErr: err, Path: "rejected", C: CResult{Kind: "none", Err: "err", ErrMsg: "create: " + err.Error(), Series: []CSeries{}}, Wall: time.Since(t0)}
	}
	path := PathOf(q)
	if isRef {
		path = "ref"
	}
	// one scenario in four (by id): the rest of the query's API is used around Exec
	noise := !isRef && idBits(sc, 13)%4 == 0
	if noise {
		_, _, _ = q.Statement(), q.Stats(), q.String()
	}
	res := q.Exec(ctx)
	c := Canon(res)
	if noise {
		_, _, _ = q.Statement(), q.Stats(), q.String()
	}
	q.Close()
	return Outcome{Path: path, Res: res, C: c, Wall: time.Since(t0)}
}

// ParseOK reports whether the reference parser accepts the query.
func ParseOK(q string) (parser.Expr, error) { return parser.ParseExpr(q) }
