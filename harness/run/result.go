// Package run executes scenarios on the engine under test and on the pinned reference engine
// and projects results into the canonical, integer-only form the trace specifications read.
package run

import (
	"errors"
	"fmt"
	"math"
	"sort"
	"strings"
	"verifharness/vt"

	"github.com/prometheus/prometheus/model/labels"
	"github.com/prometheus/prometheus/model/value"
	"github.com/prometheus/prometheus/promql"
	"github.com/prometheus/prometheus/promql/parser"
)

// CPoint is one sample: K = "i" (exact integer, V holds it), "f" (any other finite float,
// V = 0), "nan", "pinf", "ninf", "stale" (staleness-marker bit pattern).
type CPoint struct {
	T int64  `json:"t"`
	K string `json:"k"`
	V int64  `json:"v"`
}

type CSeries struct {
	LS  [][]string `json:"ls"`  // label pairs sorted by name (canonical form)
	Key []int      `json:"key"` // ranks of name,value,name,value,... in the RAW label order
	Pts []CPoint   `json:"pts"`
	F   []float64  `json:"-"`
}

// CResult: Kind in matrix vector scalar string none; Err "" or "err"; Series in RAW order.
type CResult struct {
	Kind   string    `json:"kind"`
	Err    string    `json:"err"`
	ErrMsg string    `json:"errmsg"`
	Series []CSeries `json:"series"`
}

func classify(v float64) (string, int64) {
	switch {
	case math.Float64bits(v) == value.StaleNaN:
		return "stale", 0
	case math.IsNaN(v):
		return "nan", 0
	case math.IsInf(v, 1):
		return "pinf", 0
	case math.IsInf(v, -1):
		return "ninf", 0
	case v == math.Trunc(v) && math.Abs(v) < 9e15:
		return "i", int64(v)
	}
	return "f", 0
}

func lsPairs(l labels.Labels) [][]string {
	c := make(labels.Labels, len(l))
	copy(c, l)
	sort.SliceStable(c, func(i, j int) bool { return c[i].Name < c[j].Name })
	out := make([][]string, 0, len(c))
	for _, x := range c {
		out = append(out, []string{x.Name, x.Value})
	}
	return out
}

// Canon projects a promql.Result.
func Canon(r *promql.Result) CResult {
	out := CResult{Kind: "none", Series: []CSeries{}}
	if r == nil {
		out.Err, out.ErrMsg = "err", "nil result"
		return out
	}
	if r.Err != nil {
		out.Err, out.ErrMsg = "err", r.Err.Error()
		return out
	}
	// rank dictionary over all strings of the result ("" always has rank 0)
	dict := map[string]bool{"": true}
	addL := func(l labels.Labels) {
		for _, x := range l {
			dict[x.Name] = true
			dict[x.Value] = true
		}
	}
	switch v := r.Value.(type) {
	case promql.Matrix:
		for _, s := range v {
			addL(s.Metric)
		}
	case promql.Vector:
		for _, s := range v {
			addL(s.Metric)
		}
	}
	var strs []string
	for s := range dict {
		strs = append(strs, s)
	}
	sort.Strings(strs)
	rank := map[string]int{}
	for i, s := range strs {
		rank[s] = i
	}
	key := func(l labels.Labels) []int {
		k := make([]int, 0, 2*len(l))
		for _, x := range l {
			k = append(k, rank[x.Name], rank[x.Value])
		}
		return k
	}
	pt := func(t int64, f float64) CPoint {
		k, iv := classify(f)
		// (times are reported relative to the scenario's time base: tick 0 is 0)
		return CPoint{T: t - vt.BaseMs, K: k, V: iv}
	}
	switch v := r.Value.(type) {
	case promql.Matrix:
		out.Kind = "matrix"
		for _, s := range v {
			cs := CSeries{LS: lsPairs(s.Metric), Key: key(s.Metric), Pts: []CPoint{}}
			for _, p := range s.Points {
				cs.Pts = append(cs.Pts, pt(p.T, p.V))
				cs.F = append(cs.F, p.V)
			}
			out.Series = append(out.Series, cs)
		}
	case promql.Vector:
		out.Kind = "vector"
		for _, s := range v {
			cs := CSeries{LS: lsPairs(s.Metric), Key: key(s.Metric), Pts: []CPoint{pt(s.T, s.V)}, F: []float64{s.V}}
			out.Series = append(out.Series, cs)
		}
	case promql.Scalar:
		out.Kind = "scalar"
		out.Series = append(out.Series, CSeries{LS: [][]string{}, Key: []int{}, Pts: []CPoint{pt(v.T, v.V)}, F: []float64{v.V}})
	case promql.String:
		out.Kind = "string"
	case nil:
		out.Kind = "none"
	default:
		out.Kind = fmt.Sprintf("%T", v)
	}
	return out
}

// ExprKind is the canonical kind an instant query of the expression must return.
func ExprKind(e parser.Expr, instant bool) string {
	if !instant {
		return "matrix"
	}
	switch e.Type() {
	case parser.ValueTypeScalar:
		return "scalar"
	case parser.ValueTypeVector:
		return "vector"
	case parser.ValueTypeMatrix:
		return "matrix"
	case parser.ValueTypeString:
		return "string"
	}
	return "none"
}

// ---------------------------------------------------------------------------------------
// comparator

// Diff describes the disagreement between two results ("" = they agree).
type Diff struct {
	Equal bool   `json:"equal"`
	What  string `json:"what"`  // errpresence | kind | series | points | value
	Shape string `json:"shape"` // finer classification used by known-finding predicates
	Desc  string `json:"desc"`
}

func LsString(ls [][]string) string {
	var b strings.Builder
	b.WriteByte('{')
	for i, p := range ls {
		if i > 0 {
			b.WriteByte(',')
		}
		fmt.Fprintf(&b, "%s=%q", p[0], p[1])
	}
	b.WriteByte('}')
	return b.String()
}

func FloatEq(a, b float64) bool {
	sa, sb := math.Float64bits(a) == value.StaleNaN, math.Float64bits(b) == value.StaleNaN
	if sa != sb {
		return false
	}
	if math.IsNaN(a) || math.IsNaN(b) {
		return math.IsNaN(a) && math.IsNaN(b)
	}
	if math.IsInf(a, 0) || math.IsInf(b, 0) {
		return a == b
	}
	d := math.Abs(a - b)
	return d <= 1e-9*math.Max(math.Abs(a), math.Abs(b))+1e-12
}

// Compare compares two canonical results: kind, error presence, the set of series (label
// sets), timestamps, values up to rounding. Instant vectors and matrices are compared as
// sets of series (order is C19's business).
func Compare(a, b CResult) Diff {
	if (a.Err != "") != (b.Err != "") {
		return Diff{What: "errpresence", Shape: fmt.Sprintf("errA=%v errB=%v", a.Err != "", b.Err != ""), Desc: fmt.Sprintf("A.err=%q B.err=%q", a.ErrMsg, b.ErrMsg)}
	}
	if a.Err != "" {
		return Diff{Equal: true}
	}
	if a.Kind != b.Kind {
		return Diff{What: "kind", Shape: a.Kind + "/" + b.Kind, Desc: fmt.Sprintf("kind %s vs %s", a.Kind, b.Kind)}
	}
	ma, dupA := index(a)
	mb, dupB := index(b)
	if dupA != "" || dupB != "" {
		return Diff{What: "series", Shape: "duplicate", Desc: "duplicate label set " + dupA + dupB}
	}
	var onlyA, onlyB []string
	for k := range ma {
		if _, ok := mb[k]; !ok {
			onlyA = append(onlyA, k)
		}
	}
	for k := range mb {
		if _, ok := ma[k]; !ok {
			onlyB = append(onlyB, k)
		}
	}
	sort.Strings(onlyA)
	sort.Strings(onlyB)
	if len(onlyA) > 0 || len(onlyB) > 0 {
		// "nameonly": the two results are equal but for the metric name, which one of them dropped
		// from every series that differs (same label sets otherwise, same points, same values)
		if nameOnly(ma, mb, onlyA, onlyB) {
			return Diff{What: "series", Shape: fmt.Sprintf("onlyA=%d onlyB=%d nameonly", len(onlyA), len(onlyB)), Desc: fmt.Sprintf("only in A: %v; only in B: %v", trunc(onlyA), trunc(onlyB))}
		}
		return Diff{What: "series", Shape: fmt.Sprintf("onlyA=%d onlyB=%d", len(onlyA), len(onlyB)), Desc: fmt.Sprintf("only in A: %v; only in B: %v", trunc(onlyA), trunc(onlyB))}
	}
	keys := make([]string, 0, len(ma))
	for k := range ma {
		keys = append(keys, k)
	}
	sort.Strings(keys)
	for _, k := range keys {
		sa, sb := ma[k], mb[k]
		i, j := 0, 0
		for i < len(sa.Pts) || j < len(sb.Pts) {
			switch {
			case j >= len(sb.Pts) || (i < len(sa.Pts) && sa.Pts[i].T < sb.Pts[j].T):
				return Diff{What: "points", Shape: "extraA", Desc: fmt.Sprintf("%s: point at t=%d only in A", k, sa.Pts[i].T)}
			case i >= len(sa.Pts) || sb.Pts[j].T < sa.Pts[i].T:
				return Diff{What: "points", Shape: "extraB", Desc: fmt.Sprintf("%s: point at t=%d only in B", k, sb.Pts[j].T)}
			default:
				if !FloatEq(sa.F[i], sb.F[j]) {
					return Diff{What: "value", Shape: "value", Desc: fmt.Sprintf("%s t=%d: %v vs %v", k, sa.Pts[i].T, sa.F[i], sb.F[j])}
				}
				i++
				j++
			}
		}
	}
	return Diff{Equal: true}
}

func withoutName(ls [][]string) string {
	var out [][]string
	for _, p := range ls {
		if p[0] != "__name__" {
			out = append(out, p)
		}
	}
	return LsString(out)
}

func nameOnly(ma, mb map[string]CSeries, onlyA, onlyB []string) bool {
	if len(onlyA) == 0 || len(onlyB) == 0 {
		return false
	}
	// one side has the names, the other does not; series that differ in the name only may have been
	// merged into one by the side that dropped it (when they never share a timestamp)
	for _, named := range []struct {
		with, without map[string]CSeries
		w, wo         []string
	}{{mb, ma, onlyB, onlyA}, {ma, mb, onlyA, onlyB}} {
		ok := true
		type pt struct {
			t int64
			f float64
		}
		stripped := map[string][]pt{}
		for _, k := range named.w {
			x := named.with[k]
			sk := withoutName(x.LS)
			if sk == k {
				ok = false
				break
			}
			for i := range x.Pts {
				stripped[sk] = append(stripped[sk], pt{x.Pts[i].T, x.F[i]})
			}
		}
		if !ok || len(stripped) != len(named.wo) {
			continue
		}
		for _, k := range named.wo {
			ps, found := stripped[k]
			y := named.without[k]
			if !found || len(ps) != len(y.Pts) {
				ok = false
				break
			}
			sort.Slice(ps, func(i, j int) bool { return ps[i].t < ps[j].t })
			for i := range ps {
				if ps[i].t != y.Pts[i].T || !FloatEq(ps[i].f, y.F[i]) || (i > 0 && ps[i].t == ps[i-1].t) {
					ok = false
					break
				}
			}
			if !ok {
				break
			}
		}
		if ok {
			return true
		}
	}
	return false
}

func trunc(s []string) []string {
	if len(s) > 4 {
		return append(append([]string{}, s[:4]...), "...")
	}
	return s
}

func index(r CResult) (map[string]CSeries, string) {
	m := map[string]CSeries{}
	dup := ""
	for _, s := range r.Series {
		k := LsString(s.LS)
		if _, ok := m[k]; ok {
			dup = k
		}
		m[k] = s
	}
	return m, dup
}

// ErrIs reports the chain classes of an error for the lifecycle traces.
func ErrIs(err error, target error) bool { return err != nil && errors.Is(err, target) }
