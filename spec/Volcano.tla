------------------------------- MODULE Volcano -------------------------------
(***************************************************************************)
(* Batch mechanics of the physical plan (shape layer): what the code does  *)
(* between "per-step meaning" and "result".  A plan is a sequence of       *)
(* operator nodes in topological order; every Next() of the root is one    *)
(* transition.  A batch is a sequence of grid step indices (1..N), one per *)
(* step vector.  Operator kinds (packages under execution/):                             *)
(*   gen   vector/matrix/literal selector: own cursor, numSteps =          *)
(*         min(B, N) vectors per call (query.Options.NumSteps)             *)
(*   noarg time()/pi(): own cursor, up to B vectors per call               *)
(*   inv   step-invariant operator: evaluates its child once on the grid   *)
(*         {1} and replicates it, own cursor, up to B vectors per call     *)
(*   pass  function / aggregation / unary minus / scalar side of nothing:  *)
(*         one output vector per input vector                              *)
(*   pair  binary operators, functions with scalar arguments, aggregations *)
(*         with a parameter: position i of one child's batch is combined   *)
(*         with position i of the other child's batch                      *)
(*   coal  coalesce of shards: position i of every shard is merged         *)
(*   conc  concurrency operator: forwards batches in order                 *)
(* Exec assembles points from the root's batches.                          *)
(*                                                                         *)
(* Properties (design level): the stream contract on every edge (S2 size,  *)
(* S3 canonical batch, no step repeated or skipped relative to siblings),  *)
(* no consumer ever combines vectors of different steps (Aligned), and the *)
(* assembled result has exactly one point per grid step (C07: independent  *)
(* of where a step falls inside the batches).                              *)
(***************************************************************************)
EXTENDS Integers, Sequences, FiniteSets, TLC, SequencesExt

CONSTANTS B,        \* batch size (10 in the code, 3 in the model)
          MaxN      \* largest number of grid steps explored

Min2(a, b) == IF a < b THEN a ELSE b
Node(k, ch) == [kind |-> k, ch |-> ch]

\* The topologies: every operator kind in every consumer position.
Plans == {
  <<Node("gen", <<>>)>>,                                                                    \* literal / single selector shard
  <<Node("gen", <<>>), Node("conc", <<1>>), Node("gen", <<>>), Node("conc", <<3>>), Node("coal", <<2, 4>>)>>,   \* sharded selector
  <<Node("gen", <<>>), Node("pass", <<1>>), Node("conc", <<2>>)>>,                          \* aggregation over a selector
  <<Node("gen", <<>>), Node("gen", <<>>), Node("pair", <<1, 2>>)>>,                         \* vector (op) vector / scalar literal
  <<Node("gen", <<>>), Node("noarg", <<>>), Node("pair", <<1, 2>>)>>,                       \* x (op) time(), clamp_max(x, time())
  <<Node("gen", <<>>), Node("inv", <<1>>), Node("gen", <<>>), Node("pair", <<2, 3>>)>>,     \* (x @ t) (op) y
  <<Node("gen", <<>>), Node("inv", <<1>>), Node("noarg", <<>>), Node("pair", <<2, 3>>), Node("pass", <<4>>)>>,
  <<Node("gen", <<>>), Node("pass", <<1>>), Node("gen", <<>>), Node("pair", <<3, 2>>), Node("conc", <<4>>), Node("pass", <<5>>)>>,  \* topk(scalar(p), x) under a function
  <<Node("noarg", <<>>), Node("gen", <<>>), Node("pair", <<1, 2>>), Node("pass", <<3>>)>>,  \* -(time() + 1)
  <<Node("noarg", <<>>)>>                                                                   \* top-level time()
}

VARIABLES plan, n, cursor, cached, delivered, rounds, bad
vars == <<plan, n, cursor, cached, delivered, rounds, bad>>

\* a step batch starting at cursor c with at most k vectors, on a grid of m steps ("end" = <<>> with flag)
Steps(c, k, m) == IF c > m THEN <<>> ELSE [i \in 1..Min2(k, m - c + 1) |-> c + i - 1]

\* Pull(i, cur, grid): the batch operator i returns and the cursors afterwards.
\* grid = number of steps of the grid the operator was built for (N, or 1 below an inv operator).
\* Result: [b |-> batch, end |-> BOOLEAN, cur |-> cursors, mis |-> BOOLEAN (a consumer combined different steps)]
RECURSIVE Pull(_, _, _, _)
Pull(pl, i, cur, grid) ==
  LET nd == pl[i] IN
  CASE nd.kind = "gen" ->
         LET c == cur[i] IN
         IF c > grid THEN [b |-> <<>>, end |-> TRUE, cur |-> cur, mis |-> FALSE]
         ELSE [b |-> Steps(c, Min2(B, grid), grid), end |-> FALSE, cur |-> [cur EXCEPT ![i] = c + Min2(B, grid)], mis |-> FALSE]
    [] nd.kind = "noarg" ->
         LET c == cur[i] IN
         IF c > grid THEN [b |-> <<>>, end |-> TRUE, cur |-> cur, mis |-> FALSE]
         ELSE LET s == Steps(c, B, grid) IN [b |-> s, end |-> FALSE, cur |-> [cur EXCEPT ![i] = c + Len(s)], mis |-> FALSE]
    [] nd.kind \in {"pass", "conc"} ->
         LET r == Pull(pl, nd.ch[1], cur, grid) IN r
    [] nd.kind = "inv" ->
         \* the child was built for the single step `start`; it is pulled once (first call)
         LET c == cur[i] IN
         IF c > grid THEN [b |-> <<>>, end |-> TRUE, cur |-> cur, mis |-> FALSE]
         ELSE LET r == IF c = 1 THEN Pull(pl, nd.ch[1], cur, 1) ELSE [b |-> <<1>>, end |-> FALSE, cur |-> cur, mis |-> FALSE]
                  s == Steps(c, B, grid)
              IN [b |-> s, end |-> FALSE, cur |-> [r.cur EXCEPT ![i] = c + Len(s)], mis |-> r.mis \/ (c = 1 /\ r.b # <<1>>)]
    [] nd.kind \in {"pair", "coal"} ->
         LET r1 == Pull(pl, nd.ch[1], cur, grid)
             r2 == Pull(pl, nd.ch[2], r1.cur, grid)
         IN IF r1.end \/ r2.end
              THEN [b |-> <<>>, end |-> TRUE, cur |-> r2.cur, mis |-> r1.mis \/ r2.mis \/ (r1.end # r2.end)]
              ELSE [b |-> r1.b, end |-> FALSE, cur |-> r2.cur, mis |-> r1.mis \/ r2.mis \/ r1.b # r2.b]

Init == /\ plan \in Plans /\ n \in 1..MaxN
        /\ cursor = [i \in 1..Len(plan) |-> 1]
        /\ cached = FALSE /\ delivered = <<>> /\ rounds = 0 /\ bad = {}

Done == rounds > 0 /\ delivered # <<>> /\ Last(delivered) = 0

\* canonical batch j (1-based) of a grid of m steps
Canon(j, m) == Steps((j - 1) * Min2(B, m) + 1, Min2(B, m), m)

ExecNext ==
  /\ ~Done
  /\ LET r == Pull(plan, Len(plan), cursor, n)
         j == rounds + 1
         viol == (IF Len(r.b) > B THEN {"S2"} ELSE {})
                 \cup (IF ~r.end /\ r.b # Canon(j, n) THEN {"S3"} ELSE {})
                 \cup (IF r.mis THEN {"Aligned"} ELSE {})
     IN /\ cursor' = r.cur
        /\ delivered' = IF r.end THEN Append(delivered, 0) ELSE delivered \o [x \in 1..Len(r.b) |-> r.b[x]]
        /\ bad' = bad \cup viol
        /\ rounds' = rounds + 1
  /\ UNCHANGED <<plan, n, cached>>

Next == ExecNext \/ (Done /\ UNCHANGED vars)
Spec == Init /\ [][Next]_vars /\ WF_vars(ExecNext)

\* ---- properties
Contract == bad = {}
\* the assembled result: every grid step exactly once, in order (C07 / C01 at the shape level)
ResultComplete == Done => delivered = [i \in 1..n |-> i] \o <<0>>
Terminates == <>Done
BoundedRounds == rounds <= (MaxN \div B) + 3
=============================================================================
