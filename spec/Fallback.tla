------------------------------- MODULE Fallback -------------------------------
(***************************************************************************)
(* Query creation paths (C08), design level.  For every query text the     *)
(* engine decides AT CREATION, from the expression alone, whether it       *)
(* evaluates the query itself (native) or hands it to the reference engine *)
(* (fallback); with fallback disabled an unsupported query is rejected     *)
(* with an error that identifies itself as unsupported / not implemented.  *)
(*                                                                         *)
(* Abstract state: one engine, its per-path counters, the set of created   *)
(* queries with the path each took.  Each query text q has two fixed       *)
(* attributes (functions of the expression only): Valid[q] (the reference  *)
(* engine accepts it) and Native[q] (every construct is supported).        *)
(* Clauses F1-F4 are stated here and re-used by FallbackTrace.tla.         *)
(***************************************************************************)
EXTENDS Integers, FiniteSets, Sequences, TLC

CONSTANTS Queries,            \* abstract query texts
          Valid, Native       \* [Queries -> BOOLEAN]

VARIABLES fallbackOn, created, counter, lastOutcome
vars == <<fallbackOn, created, counter, lastOutcome>>

Paths == {"native", "fallback"}
Init == /\ fallbackOn \in BOOLEAN /\ created = <<>> /\ counter = [p \in Paths |-> 0]
        /\ lastOutcome = [q |-> "", out |-> "none", fb |-> TRUE]

\* what creation must do
Outcome(q, fb) == IF ~Valid[q] THEN "invalid"
                  ELSE IF Native[q] THEN "native"
                  ELSE IF fb THEN "fallback" ELSE "rejected-unsupported"

Create(q) == /\ Len(created) < 3
             /\ LET o == Outcome(q, fallbackOn) IN
                /\ lastOutcome' = [q |-> q, out |-> o, fb |-> fallbackOn]
                /\ IF o \in Paths
                     THEN created' = Append(created, [q |-> q, path |-> o]) /\ counter' = [counter EXCEPT ![o] = @ + 1]
                     ELSE UNCHANGED <<created, counter>>
             /\ UNCHANGED fallbackOn
Toggle == fallbackOn' = ~fallbackOn /\ UNCHANGED <<created, counter, lastOutcome>>
Next == Toggle \/ \E q \in Queries : Create(q)
Spec == Init /\ [][Next]_vars

\* F1: with fallback on every valid query is created;  F3: with fallback off a valid query is either
\* rejected as unsupported or takes the path it takes with fallback on
F1 == (lastOutcome.fb /\ lastOutcome.out # "none" /\ Valid[lastOutcome.q]) => lastOutcome.out \in Paths
F3 == (~lastOutcome.fb /\ lastOutcome.out # "none" /\ Valid[lastOutcome.q]) =>
         (lastOutcome.out = "rejected-unsupported" /\ ~Native[lastOutcome.q]) \/ lastOutcome.out = "native"
\* F2: the path is a function of the expression: a query is never native once and fallback another time
F2 == \A i, j \in 1..Len(created) : created[i].q = created[j].q => created[i].path = created[j].path
\* F4: the counters count exactly the created queries, per path
F4 == \A p \in Paths : counter[p] = Cardinality({i \in 1..Len(created) : created[i].path = p})
=============================================================================
