----------------------------- MODULE Gen_Window -----------------------------
(***************************************************************************)
(* C03 scenario generator: functions over range selectors.  One observed   *)
(* series on 0..MaxT (every layout with <= MaxSamples samples, floats or   *)
(* staleness markers) under two value patterns: "pow2" (value 2^t, so that *)
(* sum_over_time IS the membership bitmask of the window) and "zig" (a     *)
(* non-monotone pattern with repeated values, for changes / resets /       *)
(* counter resets) x range x step x offset x @ x window start x step count *)
(* (counts 12 and 23 cross the engine's internal batch of 10 steps).       *)
(* The function is chosen per scenario from the seeded hash.               *)
(***************************************************************************)
EXTENDS ScnLib, PromQLRef

CONSTANTS Tier, Seed, Mod, TickMs

Q == Tier = "quick"
MaxT       == IF Q THEN 6 ELSE 8
MaxSamples == IF Q THEN 3 ELSE 4
Ranges     == IF Q THEN {1, 2, 4} ELSE {1, 2, 3, 5}
\* with a tick of 500 ms the samples lie two ticks apart (Stretch), the ranges, offsets and pins are doubled with them and the
\* window has 23 steps of one tick: the step is finer than the sample spacing, consecutive steps see the same samples from a
\* window that has moved on, and the window crosses the engine's batches of 10 steps twice
Stretch    == IF TickMs = 500 THEN 2 ELSE 1
Steps      == IF TickMs = 500 THEN {1} ELSE IF Q THEN {0, 1, 3} ELSE {0, 1, 2}
Offsets    == IF Q THEN {0, 2} ELSE {-1, 0, 2}
AtP(k, v)  == [k |-> k, v |-> v]
Ats        == IF Q THEN {AtP("none", 0), AtP("lit", 4)} ELSE {AtP("none", 0), AtP("end", 0), AtP("lit", 4)}
Starts     == IF Q THEN {2} ELSE {1, 4}
NSteps     == IF TickMs = 500 THEN {23} ELSE IF Q THEN {4, 12} ELSE {3, 12, 23}
\* "special": NaN and +/-Inf samples among the numbers (min/max_over_time skip NaN next to a number, sums are poisoned)
\* "negrise": a rising series that starts below zero (counter functions extrapolate to the zero crossing only for values >= 0)
\* "signed": zeros of either sign and NaNs of two bit patterns next to each other (equal as values, different as bits)
Pats       == {"pow2", "zig", "special", "negrise", "signed"}
Fns == <<"sum_over_time", "count_over_time", "min_over_time", "max_over_time", "last_over_time", "present_over_time",
         "changes", "resets", "rate", "increase", "delta", "irate", "idelta", "deriv", "avg_over_time",
         "stddev_over_time", "stdvar_over_time", "sum_over_time", "count_over_time">>

Kinds == {"-", "f", "s"}
Layouts == {lay \in [0..MaxT -> Kinds] : Cardinality({u \in 0..MaxT : lay[u] # "-"}) <= MaxSamples}

VARIABLE g
Init == g \in [lay : Layouts, pat : Pats, rng : Ranges, step : Steps, off : Offsets, at : Ats, start : Starts, n : NSteps]
Next == UNCHANGED g

Val(pat, u) == IF pat = "pow2" THEN 2 ^ u ELSE IF pat = "negrise" THEN 10 * u - 35 ELSE IF pat = "signed" THEN 0 ELSE ((u * 7) % 5) + (IF u % 3 = 0 THEN 10 ELSE 0)
SmpOf(x) == LET ts == SetToSortSeq({u \in 0..MaxT : x.lay[u] # "-"}, LAMBDA a, b : a < b)
                SK(u) == IF x.pat = "signed" THEN (CASE u % 4 = 0 -> "f" [] u % 4 = 1 -> "nz" [] u % 4 = 2 -> "nan" [] OTHER -> "nan2")
                         ELSE IF x.pat # "special" THEN "f" ELSE (CASE u % 4 = 1 -> "nan" [] u % 4 = 2 -> "pinf" [] u % 8 = 3 -> "ninf" [] OTHER -> "f")
            IN [i \in 1..Len(ts) |-> Smp(ts[i] * Stretch, IF x.lay[ts[i]] = "f" THEN SK(ts[i]) ELSE "s", Val(x.pat, ts[i]))]

Hash(x) == (x.rng * 7 + (x.off + 3) * 13 + x.step * 17 + x.start * 19 + x.n * 23 + (IF x.pat = "zig" THEN 5 ELSE IF x.pat = "special" THEN 9 ELSE IF x.pat = "negrise" THEN 31 ELSE IF x.pat = "signed" THEN 43 ELSE 0)
            + FoldSet(LAMBDA u, acc : acc + (IF x.lay[u] = "-" THEN 0 ELSE IF x.lay[u] = "f" THEN u + 1 ELSE 3 * (u + 1)), 0, 0..MaxT) * 29)
FnOf(x) == Fns[Pick(Hash(x) + (Seed % 997) * 131, 1, Len(Fns)) + 1]

\* m{a="w"} comes first in the storage and ends after two samples, m{a="z"} lives through the window: neighbours of
\* m{a="x"} in its shard with other lifetimes (values 3: the window law looks at the series a="x" only)
Data(x) == << Series(<< <<"__name__", "m">>, <<"a", "w">> >>, <<Smp(0, "f", 3), Smp(1, "f", 3)>>),
              Series(<< <<"__name__", "m">>, <<"a", "x">> >>, SmpOf(x)),
              Series(<< <<"__name__", "m">>, <<"a", "z">> >>, [u \in 1..(MaxT * Stretch + 14 * Stretch) |-> Smp(u - 1, "f", 3)]),
              Series(<< <<"__name__", "decoy">>, <<"a", "x">> >>, <<Smp(0, "f", 7), Smp(MaxT * Stretch, "f", 8)>>) >>
EndOf(x) == IF x.step = 0 THEN x.start * Stretch ELSE x.start * Stretch + (x.n - 1) * x.step
ScnOf(x) == Scn("win", "C03", TickMs, Data(x), <<RFn(FnOf(x), <<Metric("m")>>, x.rng * Stretch, x.off * Stretch, x.at.k, x.at.v * Stretch)>>,
                x.start * Stretch, EndOf(x), x.step, 3, 0)

\* model-level law: count_over_time of the denotation equals the number of non-stale samples in the
\* closed window [ref - rng, ref], and sum_over_time over "pow2" is the window's membership bitmask
Ref(x, t) == IF x.at.k = "lit" THEN x.at.v - x.off ELSE IF x.at.k = "start" THEN x.start - x.off
             ELSE IF x.at.k = "end" THEN EndOf(x) - x.off ELSE t - x.off
InWin(x, t) == {u \in 0..MaxT : x.lay[u] = "f" /\ u <= Ref(x, t) /\ u >= Ref(x, t) - x.rng}
WindowLaw ==
  LET sc == [ScnOf(g) EXCEPT !.plan = <<RFn("sum_over_time", <<Metric("m")>>, g.rng, g.off, g.at.k, g.at.v)>>]
      gr == Grid(sc) IN
  g.pat = "pow2" =>
  \A i \in 1..Len(gr) :
     LET r == Eval(sc, 1, gr[i])  w == InWin(g, gr[i])
         vx == SelectSeq(r.vec, LAMBDA e : e.ls = {<<"a", "x">>})
     IN
     /\ r.why = {} /\ ~r.unk
     /\ IF w = {} THEN Len(vx) = 0
        ELSE Len(vx) = 1 /\ vx[1].val = I(FoldSet(LAMBDA u, acc : acc + 2 ^ u, 0, w))

\* boundary: a sample exactly on either window edge, or just outside, at some step; or a marker inside
Interesting(x) ==
  LET sc == ScnOf(x) gr == Grid(sc) IN
  \E i \in 1..Len(gr) : LET r == Ref(x, gr[i]) IN
     \/ (r \in 0..MaxT /\ x.lay[r] # "-")
     \/ (r - x.rng \in 0..MaxT /\ x.lay[r - x.rng] # "-")
     \/ (r - x.rng - 1 \in 0..MaxT /\ x.lay[r - x.rng - 1] # "-")
     \/ (\E u \in 0..MaxT : x.lay[u] = "s" /\ u <= r /\ u >= r - x.rng)
\* the patterns with special values are replayed under four of the functions each (what a function makes of a NaN next to
\* a NaN, of zeros of either sign, of an infinity is a matter of the function)
FnK(x, k) == Fns[((Pick(Hash(x) + (Seed % 997) * 131, 1, Len(Fns)) + 5 * k) % Len(Fns)) + 1]
ScnFn(x, fn) == [ScnOf(x) EXCEPT !.plan = <<RFn(fn, <<Metric("m")>>, x.rng * Stretch, x.off * Stretch, x.at.k, x.at.v * Stretch)>>]
EmitWin == IF ((Stretch = 2 \/ Interesting(g)) /\ Pick(Hash(g), 0, Mod) = Seed % Mod)
           THEN (IF g.pat \in {"special", "signed"} THEN \A k \in 0..3 : Emit(ScnFn(g, FnK(g, k))) ELSE Emit(ScnOf(g)))
           ELSE TRUE
=============================================================================
