------------------------------ MODULE ExecTrace ------------------------------
(***************************************************************************)
(* Life cycle of one query execution under faults (C13, C14, C15, C17),    *)
(* evaluated on the events the instrumented storage and the harness record *)
(* around the public API.  The abstract state of one run:                  *)
(*   phase   created -> executing -> returned -> closed                    *)
(*   open    queriers currently open; closes[id] how often each was closed *)
(*   fault   the injected fault of this run (mode, did it fire, where)      *)
(* Events: "run" (start of a run: mode, k), "create", "execstart",         *)
(* "qopen"/"qclose" (from the storage, in real order), "fired" (the fault  *)
(* was injected at callback k of kind `at`), "execret" (Exec returned:     *)
(* error class, equal to the fault-free result?, timed out?), "close",     *)
(* "census" (goroutines still alive after Close and a grace period, was    *)
(* storage-owned data modified), "endrun".                                 *)
(*                                                                         *)
(* Clauses                                                                 *)
(*  QuerierBeforeExec   no querier is opened before Exec starts (C17)      *)
(*  QuerierAfterReturn  no querier is opened or closed after Exec returned *)
(*  QuerierClosedOnce   every opened querier is closed exactly once and is *)
(*                      closed when Exec returns (C17)                     *)
(*  DataUnmodified      storage-owned labels and samples unchanged (C17)   *)
(*  ExecReturns         Exec returns within the bound (C14; also C13/C15)  *)
(*  NoLeak              no goroutine of the query is alive after Close     *)
(*  CancelFinal         after a cancellation that fired: the context's     *)
(*                      error, or the complete fault-free result (C14)     *)
(*  ErrorSurfaces       after a storage failure that fired (one failing    *)
(*                      callback: mode err; every callback from the k-th   *)
(*                      on: mode errdown): an error that wraps the         *)
(*                      storage's error (C15)                              *)
(*  PanicSurfaces       after a panic that fired: an error (C13)           *)
(*  FaultFreeOK         without a fault: the run succeeds or fails exactly *)
(*                      like the baseline                                  *)
(*  OthersUnaffected    the engine that has just seen the fault answers    *)
(*                      the same query, fault-free, like the baseline      *)
(*                      (C13; event "after")                               *)
(***************************************************************************)
EXTENDS Integers, Sequences, FiniteSets, TLC, Json, SequencesExt

CONSTANT TraceFile
Trace == ndJsonDeserialize(TraceFile)

VARIABLES l, cur, run, phase, open, closes, fired, viol, stat
vars == <<l, cur, run, phase, open, closes, fired, viol, stat>>

Stat0 == [sc |-> 0, runs |-> 0, fired |-> 0, err |-> 0, errdown |-> 0, panic |-> 0, cancel |-> 0, block |-> 0, none |-> 0, qopens |-> 0]
Init == /\ l = 1 /\ cur = [id |-> ""] /\ run = [mode |-> "none", k |-> 0] /\ phase = "idle"
        /\ open = {} /\ closes = <<>> /\ fired = [is |-> FALSE, at |-> ""] /\ viol = {} /\ stat = Stat0
IsEv(e) == l <= Len(Trace) /\ Trace[l].ev = e /\ l' = l + 1
V(c, d) == {<<cur.id, c, "mode=" \o run.mode \o " k=" \o ToString(run.k) \o " at=" \o fired.at \o " " \o d>>}

Header == /\ IsEv("sc") /\ cur' = Trace[l] /\ stat' = [stat EXCEPT !.sc = @ + 1]
          /\ UNCHANGED <<run, phase, open, closes, fired, viol>>
RunEv == /\ IsEv("run") /\ run' = [mode |-> Trace[l].mode, k |-> Trace[l].k] /\ phase' = "idle" /\ open' = {} /\ closes' = <<>>
         /\ fired' = [is |-> FALSE, at |-> ""]
         /\ stat' = [stat EXCEPT !.runs = @ + 1] /\ UNCHANGED <<cur, viol>>
CreateEv == /\ IsEv("create") /\ phase' = "created" /\ UNCHANGED <<cur, run, open, closes, fired, viol, stat>>
StartEv == /\ IsEv("execstart") /\ phase' = "executing" /\ UNCHANGED <<cur, run, open, closes, fired, viol, stat>>

QOpen == /\ IsEv("qopen")
         /\ LET id == Trace[l].id IN
            /\ open' = open \cup {id}
            /\ viol' = viol \cup (IF phase \in {"idle", "created"} THEN V("QuerierBeforeExec", "") ELSE {})
                            \cup (IF phase \in {"returned", "closed"} THEN V("QuerierAfterReturn", "opened") ELSE {})
         /\ stat' = [stat EXCEPT !.qopens = @ + 1]
         /\ UNCHANGED <<cur, run, phase, closes, fired>>
QClose == /\ IsEv("qclose")
          /\ LET id == Trace[l].id
                 n == Cardinality({i \in 1..Len(closes) : closes[i] = id}) IN
             /\ closes' = Append(closes, id)
             /\ open' = open \ {id}
             /\ viol' = viol \cup (IF n >= 1 THEN V("QuerierClosedOnce", "closed twice") ELSE {})
                             \cup (IF phase \in {"returned", "closed"} THEN V("QuerierAfterReturn", "closed") ELSE {})
          /\ UNCHANGED <<cur, run, phase, fired, stat>>
FiredEv == /\ IsEv("fired") /\ fired' = [is |-> TRUE, at |-> Trace[l].at]
           /\ stat' = [stat EXCEPT !.fired = @ + 1] /\ UNCHANGED <<cur, run, phase, open, closes, viol>>

RetEv ==
  /\ IsEv("execret")
  /\ LET e == Trace[l]
         v0 == IF e.timedout THEN V("ExecReturns", "Exec did not return within the bound") ELSE {}
         v1 == IF open # {} THEN V("QuerierClosedOnce", "querier still open when Exec returned") ELSE {}
         v2 == IF ~fired.is \/ e.timedout THEN {}
               ELSE CASE run.mode \in {"err", "errdown"} -> (IF e.errkind = "injected" THEN {} ELSE V("ErrorSurfaces", "result error class: " \o e.errkind))
                      [] run.mode = "panic" -> (IF e.errkind # "none" THEN {} ELSE V("PanicSurfaces", "successful result after a panic in a storage callback"))
                      [] run.mode \in {"cancel", "block", "cancelcall"} ->
                           (IF e.errkind = e.want \/ (e.errkind = "none" /\ e.equal) THEN {}
                            ELSE V("CancelFinal", "result error class: " \o e.errkind \o (IF e.errkind = "none" THEN " (partial result)" ELSE "")))
                      [] OTHER -> {}
         v3 == IF run.mode = "none" /\ ~e.equal THEN V("FaultFreeOK", "fault-free run differs from the baseline: " \o e.errkind) ELSE {}
     IN viol' = viol \cup v0 \cup v1 \cup v2 \cup v3
  /\ phase' = "returned"
  /\ stat' = [stat EXCEPT ![run.mode] = @ + 1]
  /\ UNCHANGED <<cur, run, open, closes, fired>>

CloseEv == /\ IsEv("close") /\ phase' = "closed" /\ UNCHANGED <<cur, run, open, closes, fired, viol, stat>>
CensusEv == /\ IsEv("census")
            /\ viol' = viol \cup (IF Trace[l].alive > 0 THEN V("NoLeak", ToString(Trace[l].alive) \o " goroutine(s): " \o Trace[l].where) ELSE {})
                            \cup (IF Trace[l].mutated # "" THEN V("DataUnmodified", Trace[l].mutated) ELSE {})
            /\ UNCHANGED <<cur, run, phase, open, closes, fired, stat>>
AfterEv == /\ IsEv("after")
           /\ viol' = viol \cup (IF ~Trace[l].equal THEN V("OthersUnaffected", "the next query on the same engine differs from the baseline: " \o Trace[l].desc) ELSE {})
           /\ UNCHANGED <<cur, run, phase, open, closes, fired, stat>>
\* the child process that executed the scenario died (ProcessDead: C13) or made no progress for the
\* supervisor's stall bound and was killed (ProcessHung: Exec deadlocked or never returned, C14)
DeadEv == /\ IsEv("dead") /\ viol' = viol \cup {<<cur.id, IF Trace[l].why = "hang" THEN "ProcessHung" ELSE "ProcessDead", Trace[l].why>>} /\ UNCHANGED <<cur, run, phase, open, closes, fired, stat>>
OtherEv == /\ l <= Len(Trace) /\ Trace[l].ev \notin {"sc", "run", "create", "execstart", "qopen", "qclose", "fired", "execret", "close", "census", "dead", "after"}
           /\ l' = l + 1 /\ UNCHANGED <<cur, run, phase, open, closes, fired, viol, stat>>

Next == Header \/ RunEv \/ CreateEv \/ StartEv \/ QOpen \/ QClose \/ FiredEv \/ RetEv \/ CloseEv \/ CensusEv \/ AfterEv \/ DeadEv \/ OtherEv
Spec == Init /\ [][Next]_vars
Done == l = Len(Trace) + 1 => /\ PrintT(<<"VIOL", ToJson(SetToSeq(viol))>>) /\ PrintT(<<"STAT", ToJson(stat)>>)
Accepted == TLCGet("stats").diameter - 1 = Len(Trace)
=============================================================================
