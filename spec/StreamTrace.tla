----------------------------- MODULE StreamTrace -----------------------------
(***************************************************************************)
(* The operator stream contract (C18), evaluated on the operator-boundary  *)
(* events recorded by hook H1 at EVERY producer/consumer edge of every     *)
(* physical plan (harness/optrace).  Per operator instance the state is    *)
(*   serN, dg   length and digest of the series list (-1 = not yet seen)   *)
(*   delivered  number of grid steps delivered so far                      *)
(*   ended      the operator has signalled the end of its stream           *)
(*   lastRet    sequence number of the return of its last Next             *)
(* Events: "plan" (operator tree, window), "series" (a Series call and its *)
(* return), "next" (a Next call and its return: end | err | batch with,    *)
(* per step vector, t, ids, number of values, number of stale values).     *)
(*                                                                         *)
(* Clauses (the same names as Volcano.tla's design-level properties):      *)
(*  S1 the series list never changes                                       *)
(*  S2 a batch has at most B step vectors                                  *)
(*  S3 a non-empty batch is the next canonical batch of the operator's     *)
(*     grid: consecutive grid timestamps starting at the first step not    *)
(*     yet delivered, full unless it is the last one - one vector per      *)
(*     evaluation step, so that position i of sibling batches always       *)
(*     denotes the same step.  The operator's grid is the query's, or the  *)
(*     single step `start` below a step-invariant operator.                *)
(*  S4 sample IDs pairwise distinct within a step and < length of the      *)
(*     series list (when known)                                            *)
(*  S5 as many values as IDs     S6 no staleness marker                    *)
(*  S7 after the end only end (or an error) is returned                    *)
(*  S8 Next is never called while another Next of the operator is running  *)
(*  S9 the end is signalled only after every step of the operator's grid   *)
(*     has been delivered (an operator without series delivers empty step  *)
(*     vectors: a consumer such as scalar() has a value for such a step)   *)
(***************************************************************************)
EXTENDS Integers, Sequences, FiniteSets, TLC, Json, SequencesExt

CONSTANTS TraceFile, B
Trace == ndJsonDeserialize(TraceFile)

VARIABLES l, scid, qs, viol, stat
vars == <<l, scid, qs, viol, stat>>

Stat0 == [sc |-> 0, plans |-> 0, ops |-> 0, nexts |-> 0, batches |-> 0, vectors |-> 0, ends |-> 0, probes |-> 0, series |-> 0]
Init == l = 1 /\ scid = "" /\ qs = <<>> /\ viol = {} /\ stat = Stat0

IsEv(e) == l <= Len(Trace) /\ Trace[l].ev = e /\ l' = l + 1
Min2(a, b) == IF a < b THEN a ELSE b

\* qs: sequence of query records [q, start, end, step, ops]; ops: sequence of operator records
QIdx(q) == {i \in 1..Len(qs) : qs[i].q = q}
OpIdx(Q, id) == {i \in 1..Len(Q.ops) : Q.ops[i].id = id}

Header == /\ IsEv("sc") /\ scid' = Trace[l].id /\ qs' = <<>> /\ stat' = [stat EXCEPT !.sc = @ + 1] /\ UNCHANGED viol

PlanEv ==
  /\ IsEv("plan")
  /\ LET e == Trace[l]
         ops == [i \in 1..Len(e.ops) |-> [id |-> e.ops[i].id, kind |-> e.ops[i].kind, pinned |-> e.ops[i].pinned,
                                          serN |-> -1, dg |-> -1, delivered |-> 0, ended |-> FALSE, lastRet |-> 0]]
     IN /\ qs' = Append(qs, [q |-> e.q, start |-> e.start, end |-> e.end, step |-> e.step, ops |-> ops, query |-> e.query])
        /\ stat' = [stat EXCEPT !.plans = @ + 1, !.ops = @ + Len(e.ops)]
  /\ UNCHANGED <<scid, viol>>

Bad(q, op, clause, detail) == {<<scid, clause, "q=" \o ToString(q) \o " op=" \o ToString(op) \o " " \o detail>>}

SeriesEv ==
  /\ IsEv("series")
  /\ LET e == Trace[l] IN
     IF QIdx(e.q) = {} THEN UNCHANGED <<qs, viol>>
     ELSE LET qi == CHOOSE i \in QIdx(e.q) : TRUE
              Q == qs[qi]
              oi == CHOOSE i \in OpIdx(Q, e.op) : TRUE
              o == Q.ops[oi]
              changed == e.err = "" /\ o.serN # -1 /\ (o.serN # e.n \/ o.dg # e.dg)
              o2 == IF e.err = "" /\ o.serN = -1 THEN [o EXCEPT !.serN = e.n, !.dg = e.dg] ELSE o
          IN /\ qs' = [qs EXCEPT ![qi].ops[oi] = o2]
             /\ viol' = viol \cup (IF changed THEN Bad(e.q, e.op, "S1", o.kind) ELSE {})
  /\ stat' = [stat EXCEPT !.series = @ + 1]
  /\ UNCHANGED scid

NextEv ==
  /\ IsEv("next")
  /\ LET e == Trace[l] IN
     IF QIdx(e.q) = {} THEN UNCHANGED <<qs, viol>>
     ELSE
     LET qi == CHOOSE i \in QIdx(e.q) : TRUE
         Q == qs[qi]
         oi == CHOOSE i \in OpIdx(Q, e.op) : TRUE
         o == Q.ops[oi]
         total == IF o.pinned \/ Q.step = 0 THEN 1 ELSE (Q.end - Q.start) \div Q.step + 1
         tExp(k) == IF o.pinned \/ Q.step = 0 THEN Q.start ELSE Q.start + k * Q.step
         nb == Len(e.b)
         remaining == total - o.delivered
         s8 == IF e.seq0 > o.lastRet THEN {} ELSE Bad(e.q, e.op, "S8", o.kind)
         s7 == IF o.ended /\ e.ret = "batch" THEN Bad(e.q, e.op, "S7", o.kind) ELSE {}
         s2 == IF nb > B THEN Bad(e.q, e.op, "S2", o.kind) ELSE {}
         s3 == IF e.ret = "batch" /\ nb > 0 /\ ~o.ended /\
                  ~(/\ nb = Min2(B, remaining)
                    /\ \A i \in 1..nb : e.b[i].t = tExp(o.delivered + i - 1))
                THEN Bad(e.q, e.op, "S3", o.kind \o " delivered=" \o ToString(o.delivered) \o " len=" \o ToString(nb)
                                          \o " t1=" \o ToString(e.b[1].t) \o " expected=" \o ToString(tExp(o.delivered)))
                ELSE {}
         s4 == IF \E i \in 1..nb : \/ Cardinality(ToSet(e.b[i].ids)) # Len(e.b[i].ids)
                                   \/ (o.serN # -1 /\ \E j \in 1..Len(e.b[i].ids) : e.b[i].ids[j] >= o.serN)
                THEN Bad(e.q, e.op, "S4", o.kind) ELSE {}
         s5 == IF \E i \in 1..nb : e.b[i].nv # Len(e.b[i].ids) THEN Bad(e.q, e.op, "S5", o.kind) ELSE {}
         s6 == IF \E i \in 1..nb : e.b[i].stale # 0 THEN Bad(e.q, e.op, "S6", o.kind) ELSE {}
         s9 == IF e.ret = "end" /\ ~o.ended /\ o.delivered < total
                THEN Bad(e.q, e.op, "S9", o.kind \o " ends after " \o ToString(o.delivered) \o " of " \o ToString(total) \o " steps") ELSE {}
         o2 == [o EXCEPT !.lastRet = e.seq,
                         !.ended = @ \/ e.ret = "end",
                         !.delivered = IF e.ret = "batch" THEN @ + nb ELSE @]
     IN /\ qs' = [qs EXCEPT ![qi].ops[oi] = o2]
        /\ viol' = viol \cup s8 \cup s7 \cup s2 \cup s3 \cup s4 \cup s5 \cup s6 \cup s9
  /\ stat' = [stat EXCEPT !.nexts = @ + 1,
                          !.batches = @ + (IF Trace[l].ret = "batch" THEN 1 ELSE 0),
                          !.vectors = @ + Len(Trace[l].b),
                          !.ends = @ + (IF Trace[l].ret = "end" THEN 1 ELSE 0)]
  /\ UNCHANGED scid

OtherEv == /\ l <= Len(Trace) /\ Trace[l].ev \notin {"sc", "plan", "series", "next"}
           /\ l' = l + 1 /\ UNCHANGED <<scid, qs, viol, stat>>

Next == Header \/ PlanEv \/ SeriesEv \/ NextEv \/ OtherEv
Spec == Init /\ [][Next]_vars

Done == l = Len(Trace) + 1 =>
          /\ PrintT(<<"VIOL", ToJson(SetToSeq(viol))>>)
          /\ PrintT(<<"STAT", ToJson(stat)>>)
Accepted == TLCGet("stats").diameter - 1 = Len(Trace)
=============================================================================
