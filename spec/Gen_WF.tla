------------------------------- MODULE Gen_WF -------------------------------
(***************************************************************************)
(* C19 dedicated scenarios: value domains outside the comparison-safe      *)
(* range (magnitudes of 1e308 that overflow to +/-Inf when added, de-      *)
(* normals), selectors whose name-dropping makes distinct series collide,  *)
(* group_left labels that already exist / sort first, empty results.       *)
(***************************************************************************)
EXTENDS ScnLib, PromQLRef
CONSTANTS Tier, Seed, Mod, TickMs

Span == 14
Data == <<
  Series(<< <<"__name__","m">>, <<"a","x">>, <<"b","1">> >>, [i \in 1..Span |-> Smp(i - 1, "f", i)]),
  Series(<< <<"__name__","n">>, <<"a","x">>, <<"b","1">> >>, [i \in 1..Span |-> Smp(i - 1, "f", 2 * i)]),
  Series(<< <<"__name__","m">>, <<"a","y">> >>, [i \in 1..Span |-> Smp(i - 1, IF i % 4 = 0 THEN "s" ELSE "f", 3)]),
  Series(<< <<"__name__","n">>, <<"a","y">> >>, [i \in 1..7 |-> Smp(2 * (i - 1), "f", 5)]),
  Series(<< <<"__name__","big">>, <<"a","x">> >>, [i \in 1..Span |-> Smp(i - 1, "big", 9)]),
  Series(<< <<"__name__","big">>, <<"a","y">> >>, [i \in 1..Span |-> Smp(i - 1, "big", IF i % 2 = 0 THEN 17 ELSE -17)]),
  Series(<< <<"__name__","tiny">>, <<"a","x">> >>, [i \in 1..Span |-> Smp(i - 1, "tiny", i)]),
  Series(<< <<"__name__","h1_bucket">>, <<"job","api">>, <<"le","1">> >>, [i \in 1..Span |-> Smp(i - 1, "f", i)]),
  Series(<< <<"__name__","h1_bucket">>, <<"job","api">>, <<"le","2">> >>, [i \in 1..Span |-> Smp(i - 1, "f", 2 * i)]),
  Series(<< <<"__name__","h1_bucket">>, <<"job","api">>, <<"le","+Inf">> >>, [i \in 1..Span |-> Smp(i - 1, "f", 3 * i)]),
  Series(<< <<"__name__","h2_bucket">>, <<"job","api">>, <<"le","1">> >>, [i \in 1..Span |-> Smp(i - 1, "f", 2)]),
  Series(<< <<"__name__","h2_bucket">>, <<"job","api">>, <<"le","+Inf">> >>, [i \in 1..Span |-> Smp(i - 1, "f", 5)]),
  \* a histogram and a plain series with a hole: present, stale at tick 3, absent until tick 7, present again -
  \* some steps have no sample at all and are followed by steps with samples inside one batch of 10
  Series(<< <<"__name__","h3_bucket">>, <<"le","1">> >>, [i \in 1..10 |-> Smp(IF i <= 4 THEN i - 1 ELSE i + 2, IF i = 4 THEN "s" ELSE "f", i)]),
  Series(<< <<"__name__","h3_bucket">>, <<"le","+Inf">> >>, [i \in 1..10 |-> Smp(IF i <= 4 THEN i - 1 ELSE i + 2, IF i = 4 THEN "s" ELSE "f", 4 * i)]),
  Series(<< <<"__name__","gap">>, <<"a","x">> >>, [i \in 1..10 |-> Smp(IF i <= 4 THEN i - 1 ELSE i + 2, IF i = 4 THEN "s" ELSE "f", 10 + i)]),
  \* a metric that takes over from another one (same labels but the name): ho ends at tick 5 (marker at 6), ho2
  \* begins at tick 5 - exactly one common step; hp / hp2 never meet (hp ends at 4, hp2 begins at 7)
  Series(<< <<"__name__","ho">>, <<"a","x">> >>, [i \in 1..7 |-> Smp(i - 1, IF i = 7 THEN "s" ELSE "f", i)]),
  Series(<< <<"__name__","ho2">>, <<"a","x">> >>, [i \in 1..8 |-> Smp(i + 4, "f", 10 * i)]),
  Series(<< <<"__name__","hp">>, <<"a","x">> >>, [i \in 1..6 |-> Smp(i - 1, IF i = 6 THEN "s" ELSE "f", i)]),
  Series(<< <<"__name__","hp2">>, <<"a","x">> >>, [i \in 1..6 |-> Smp(i + 6, "f", 10 * i)]),
  \* samples before the epoch (negative timestamps), through it and after it
  Series(<< <<"__name__","old">>, <<"a","x">> >>, [i \in 1..17 |-> Smp(i - 9, IF i = 5 THEN "s" ELSE "f", i)]),
  Series(<< <<"__name__","old">>, <<"a","y">> >>, [i \in 1..6 |-> Smp(3 * i - 10, "f", 100 + i)]),
  Series(<< <<"__name__","r">>, <<"A","first">>, <<"__meta","k">>, <<"a","x">>, <<"b","9">>, <<"zz","last">> >>, [i \in 1..Span |-> Smp(i - 1, "f", 1)]) >>

MN == <<Sel(<<Re("__name__", "m|n", <<"m", "n">>)>>)>>
MNX == <<Sel(<<Re("__name__", "m|n", <<"m", "n">>), Eq("a", "x")>>)>>
M == <<Sel(<<Metric("m")>>)>>
R == <<Sel(<<Metric("r")>>)>>
BIG == <<Sel(<<Metric("big")>>)>>
TINY == <<Sel(<<Metric("tiny")>>)>>
F1(fn, p) == Over(p, LAMBDA c : Fn(fn, <<c>>))
GAP == <<Sel(<<Metric("gap")>>)>>
HQ3 == Join(<<NumS("0.5")>>, <<Sel(<<Metric("h3_bucket")>>)>>, LAMBDA a, b : Fn("histogram_quantile", <<a, b>>))
TINYX == <<Sel(<<Metric("tiny"), Eq("a", "x")>>)>>
HO == <<Sel(<<Re("__name__", "ho|ho2", <<"ho", "ho2">>)>>)>>
HP == <<Sel(<<Re("__name__", "hp|hp2", <<"hp", "hp2">>)>>)>>
OLD == <<Sel(<<Metric("old")>>)>>
SumGap == Over(GAP, LAMBDA c : Agg("sum", TRUE, <<>>, <<c>>))
Plans == <<
  \* scalar() over an aggregation that has no input at some steps (the empty steps come out as NaN, at their own time)
  F1("scalar", SumGap), F1("vector", F1("scalar", Over(GAP, LAMBDA c : Agg("max", TRUE, <<>>, <<c>>)))),
  Join(F1("scalar", Over(GAP, LAMBDA c : Agg("count", TRUE, <<"a">>, <<c>>))), <<Num(1)>>, LAMBDA a, b : Bin("+", a, b)),
  OLD, F1("timestamp", OLD), Over(OLD, LAMBDA c : Agg("sum", TRUE, <<>>, <<c>>)), <<RFn("rate", <<Metric("old")>>, 3, 0, "none", 0)>>,
  <<RFn("sum_over_time", <<Metric("old")>>, 2, 1, "none", 0)>>, <<SelOff(<<Metric("old")>>, 2)>>, <<SelAt(<<Metric("old")>>, 0, "lit", -3)>>,
  Join(OLD, <<Fn("time", <<>>)>>, LAMBDA a, b : Bin("-", a, b)), <<Fn("time", <<>>)>>, <<RFn("last_over_time", <<Metric("old")>>, 2, 0, "start", 0)>>,
  Join(HO, <<Num(5)>>, LAMBDA a, b : Bin("*", a, b)), Join(<<Num(5)>>, HO, LAMBDA a, b : Bin("-", a, b)), Over(HO, LAMBDA c : NegN(c)), F1("abs", HO),
  Join(HO, <<Num(2)>>, LAMBDA a, b : BinM(">", a, b, TRUE, "1:1", FALSE, <<>>, <<>>)),
  Join(<<Num(1)>>, Join(HO, <<Num(5)>>, LAMBDA a, b : Bin("*", a, b)), LAMBDA a, b : Agg("topk", TRUE, <<>>, <<a, b>>)),
  Over(Join(HO, <<Num(5)>>, LAMBDA a, b : Bin("*", a, b)), LAMBDA c : Agg("sum", FALSE, <<>>, <<c>>)),
  Join(HP, <<Num(5)>>, LAMBDA a, b : Bin("*", a, b)), Over(HP, LAMBDA c : NegN(c)), F1("abs", HP),
  Join(<<Num(2)>>, Join(HP, <<Num(5)>>, LAMBDA a, b : Bin("*", a, b)), LAMBDA a, b : Agg("bottomk", TRUE, <<>>, <<a, b>>)),
  HQ3, Join(HQ3, TINYX, LAMBDA a, b : BinM("+", a, b, FALSE, "1:1", TRUE, <<>>, <<>>)),
  Join(<<Sel(<<Metric("p9")>>), Fn("scalar", <<1>>)>>, HQ3, LAMBDA a, b : Fn("clamp_min", <<b, a>>)),
  GAP, F1("abs", GAP), F1("timestamp", GAP), Over(GAP, LAMBDA c : NegN(c)), Over(GAP, LAMBDA c : Agg("sum", TRUE, <<>>, <<c>>)),
  Join(<<Num(1)>>, GAP, LAMBDA a, b : Agg("topk", TRUE, <<>>, <<a, b>>)), Join(GAP, <<Fn("time", <<>>)>>, LAMBDA a, b : Bin("-", a, b)),
  Join(GAP, TINYX, LAMBDA a, b : BinM("+", a, b, FALSE, "1:1", TRUE, <<"a">>, <<>>)),
  Join(TINYX, GAP, LAMBDA a, b : BinM("*", a, b, FALSE, "N:1", TRUE, <<"a">>, <<>>)),
  Join(GAP, <<Fn("time", <<>>)>>, LAMBDA a, b : Fn("clamp_max", <<a, b>>)), F1("scalar", GAP),
  <<RFn("last_over_time", <<Metric("gap")>>, 1, 0, "none", 0)>>,
  MN, F1("abs", MN), F1("abs", MNX), Over(MN, LAMBDA c : NegN(c)), Join(MN, <<Num(1)>>, LAMBDA a, b : Bin("+", a, b)),
  Join(MN, <<Num(1)>>, LAMBDA a, b : Bin(">", a, b)), Join(MN, <<Num(1)>>, LAMBDA a, b : BinM(">", a, b, TRUE, "1:1", FALSE, <<>>, <<>>)),
  <<RFn("sum_over_time", <<Re("__name__", "m|n", <<"m", "n">>)>>, 2, 0, "none", 0)>>,
  <<RFn("last_over_time", <<Re("__name__", "m|n", <<"m", "n">>)>>, 2, 0, "none", 0)>>,
  <<RFn("rate", <<Re("__name__", "m|n", <<"m", "n">>), Eq("a", "y")>>, 3, 0, "none", 0)>>,
  Over(MN, LAMBDA c : Agg("sum", TRUE, <<"a">>, <<c>>)), Over(F1("abs", MN), LAMBDA c : Agg("sum", TRUE, <<"a">>, <<c>>)),
  Join(M, R, LAMBDA a, b : BinM("*", a, b, FALSE, "N:1", TRUE, <<"a">>, <<"b">>)),
  Join(M, R, LAMBDA a, b : BinM("*", a, b, FALSE, "N:1", TRUE, <<"a">>, <<"A", "zz">>)),
  Join(M, R, LAMBDA a, b : BinM("+", a, b, FALSE, "N:1", TRUE, <<"a">>, <<"b", "A">>)),
  Join(R, M, LAMBDA a, b : BinM("*", a, b, FALSE, "1:N", TRUE, <<"a">>, <<"A">>)),
  Join(M, R, LAMBDA a, b : BinM("==", a, b, TRUE, "N:1", TRUE, <<"a">>, <<"zz">>)),
  BIG, Over(BIG, LAMBDA c : Agg("sum", TRUE, <<>>, <<c>>)), Over(BIG, LAMBDA c : Agg("avg", TRUE, <<>>, <<c>>)),
  Join(BIG, BIG, LAMBDA a, b : Bin("+", a, b)), Join(BIG, <<Num(20)>>, LAMBDA a, b : Bin("*", a, b)),
  <<RFn("sum_over_time", <<Metric("big")>>, 3, 0, "none", 0)>>, <<RFn("rate", <<Metric("big")>>, 3, 0, "none", 0)>>,
  <<RFn("stddev_over_time", <<Metric("big")>>, 3, 0, "none", 0)>>, Over(BIG, LAMBDA c : Agg("stddev", TRUE, <<>>, <<c>>)),
  TINY, Join(TINY, <<Num(2)>>, LAMBDA a, b : Bin("/", a, b)), Over(TINY, LAMBDA c : Agg("sum", TRUE, <<"a">>, <<c>>)),
  F1("sqrt", TINY), F1("ln", TINY), Join(M, <<Num(0)>>, LAMBDA a, b : Bin("/", a, b)), Join(M, <<Num(0)>>, LAMBDA a, b : Bin("%", a, b)),
  <<Sel(<<Metric("nope")>>)>>, Over(<<Sel(<<Metric("nope")>>)>>, LAMBDA c : Agg("sum", TRUE, <<>>, <<c>>)),
  F1("scalar", BIG), F1("vector", F1("scalar", TINY)), Join(<<NumS("1e308")>>, <<Num(10)>>, LAMBDA a, b : Bin("*", a, b)),
  Join(<<Num(1)>>, BIG, LAMBDA a, b : Agg("topk", TRUE, <<>>, <<a, b>>)), Over(MN, LAMBDA c : Agg("max", FALSE, <<"b">>, <<c>>)),
  Join(<<NumS("0.5")>>, BIG, LAMBDA a, b : Agg("quantile", TRUE, <<>>, <<a, b>>)),
  Join(<<NumS("0.9")>>, <<Sel(<<Metric("h1_bucket")>>)>>, LAMBDA a, b : Fn("histogram_quantile", <<a, b>>)),
  Join(<<NumS("0.9")>>, <<Sel(<<Re("__name__", "h1_bucket|h2_bucket", <<"h1_bucket", "h2_bucket">>)>>)>>, LAMBDA a, b : Fn("histogram_quantile", <<a, b>>)),
  Join(<<NumS("0.5")>>, <<RFn("rate", <<Re("__name__", "h1_bucket|h2_bucket", <<"h1_bucket", "h2_bucket">>)>>, 3, 0, "none", 0)>>, LAMBDA a, b : Fn("histogram_quantile", <<a, b>>)),
  Join(<<NumS("0.5")>>, Over(<<Sel(<<Re("__name__", "h1_bucket|h2_bucket", <<"h1_bucket", "h2_bucket">>)>>)>>, LAMBDA c : Agg("sum", TRUE, <<"le">>, <<c>>)), LAMBDA a, b : Fn("histogram_quantile", <<a, b>>)) >>

VARIABLE g
\* r0: 14 steps from the epoch itself (the first step has timestamp 0)
\* rneg: 14 steps from six ticks before the epoch; ineg: an instant query before the epoch
Init == g \in [p : 1..Len(Plans), w : {"instant", "r12", "r4", "r0", "rneg", "ineg"}]
Next == UNCHANGED g
ScnOf(x) == Scn("wf", "C19", TickMs, Data, Plans[x.p],
                CASE x.w = "r0" -> 0 [] x.w = "rneg" -> -6 [] x.w = "ineg" -> -4 [] OTHER -> 1,
                CASE x.w = "instant" -> 1 [] x.w = "r12" -> 12 [] x.w = "r0" -> 13 [] x.w = "rneg" -> 7 [] x.w = "ineg" -> -4 [] OTHER -> 10,
                IF x.w \in {"instant", "ineg"} THEN 0 ELSE IF x.w \in {"r12", "r0", "rneg"} THEN 1 ELSE 3, 2, 0)
EmitWF == Emit(ScnOf(g))
=============================================================================
