---------------------------- MODULE SessionTrace ----------------------------
(***************************************************************************)
(* Histories of engine use (C07, C09, C10, C11, C12, C16 sufficiency, C20).*)
(*                                                                         *)
(* The specification: a query result is a FUNCTION of the query text, the  *)
(* evaluation timestamp (window), the lookback and the stored samples the  *)
(* selectors match - and of nothing else.  The abstract state is           *)
(*   ver    the version of the stored data (Append increments it)          *)
(*   cfg    everything the result must NOT depend on: core count, storage  *)
(*          order, decoy series, optimizer set, partitioning, hint         *)
(*          pruning, window containing the timestamp, concurrency, history *)
(*   memo   key -> the result class observed for <<key, ver>>              *)
(* An observation "obs" carries the key (query / timestamp / lookback as   *)
(* the harness projected it) and the class id the Go comparator assigned   *)
(* to the result (equal up to rounding = same class).  The action Observe  *)
(* is enabled for every observation; it records a violation of Agree when  *)
(* memo already maps the key to another class.  "snap" events re-check a   *)
(* returned result against its deep snapshot (ReturnedResultsImmutable).   *)
(***************************************************************************)
EXTENDS PromQLRef, Json

CONSTANT TraceFile
Trace == ndJsonDeserialize(TraceFile)

VARIABLES l, cur, ver, cfg, memo, viol, stat, tie
vars == <<l, cur, ver, cfg, memo, viol, stat, tie>>

Stat0 == [sc |-> 0, obs |-> 0, keys |-> 0, variations |-> 0, snaps |-> 0, skipped |-> 0, dead |-> 0, ties |-> 0]
Init == /\ l = 1 /\ cur = [id |-> ""] /\ ver = 0 /\ cfg = "" /\ memo = <<>> /\ viol = {} /\ stat = Stat0 /\ tie = FALSE

IsEv(e) == l <= Len(Trace) /\ Trace[l].ev = e /\ l' = l + 1

\* memo is a sequence of [key, ver, cls, cfg, src] (small per scenario; reset at every header)
Lookup(k) == {i \in 1..Len(memo) : memo[i].key = k /\ memo[i].ver = ver}

\* With a tie at the cut of a topk/bottomk group (or values the specification does not know) the result
\* depends on the order in which series reach the operator - storage order, shard count, partitioning: it is not
\* a function of the data (the reference engine behaves the same).  Such scenarios carry no agreement claim.
HasTie(h) == "spec" \in DOMAIN h /\ h.spec /\ AnyTie(h)
Header == /\ IsEv("sc")
          /\ cur' = Trace[l] /\ ver' = 0 /\ cfg' = "" /\ memo' = <<>>
          /\ tie' = HasTie(Trace[l])
          /\ stat' = [stat EXCEPT !.sc = @ + 1, !.ties = @ + (IF HasTie(Trace[l]) THEN 1 ELSE 0)]
          /\ UNCHANGED viol

\* configuration variation (environment action: must not change any result)
Vary == /\ IsEv("cfg") /\ cfg' = Trace[l].cfg
        /\ stat' = [stat EXCEPT !.variations = @ + 1]
        /\ UNCHANGED <<cur, ver, memo, viol, tie>>

\* the stored data changes: results may change
AppendData == /\ IsEv("data") /\ ver' = ver + 1 /\ UNCHANGED <<cur, cfg, memo, viol, stat, tie>>

Observe ==
  /\ IsEv("obs")
  /\ LET e == Trace[l]  hit == Lookup(e.key) IN
     IF hit = {} THEN
        /\ memo' = Append(memo, [key |-> e.key, ver |-> ver, cls |-> e.cls, cfg |-> cfg, src |-> e.src, desc |-> e.desc])
        /\ stat' = [stat EXCEPT !.obs = @ + 1, !.keys = @ + 1]
        /\ UNCHANGED viol
     ELSE LET m == memo[CHOOSE i \in hit : TRUE] IN
        /\ memo' = memo
        /\ stat' = [stat EXCEPT !.obs = @ + 1]
        /\ viol' = IF m.cls = e.cls \/ tie THEN viol
                   ELSE viol \cup {<<cur.id, "Agree",
                          "key=" \o e.key \o " first=" \o m.src \o "[" \o m.cfg \o "] now=" \o e.src \o "[" \o cfg \o "] " \o e.desc \o " <> first: " \o m.desc>>}
  /\ UNCHANGED <<cur, ver, cfg, tie>>

\* a result handed to the caller earlier is compared with its deep snapshot
Snap == /\ IsEv("snap")
        /\ viol' = IF Trace[l].same THEN viol
                   ELSE viol \cup {<<cur.id, "ReturnedResultsImmutable", "result=" \o Trace[l].rid \o " after=" \o Trace[l].after>>}
        /\ stat' = [stat EXCEPT !.snaps = @ + 1]
        /\ UNCHANGED <<cur, ver, cfg, memo, tie>>

DeadEv == /\ IsEv("dead")
          /\ viol' = viol \cup {<<cur.id, "ProcessDead", Trace[l].why>>}
          /\ stat' = [stat EXCEPT !.dead = @ + 1]
          /\ UNCHANGED <<cur, ver, cfg, memo, tie>>

\* a data race reported by the Go race detector inside the engine while this scenario ran (C12):
\* no action of the specification accepts it
RaceEv == /\ IsEv("race")
          /\ viol' = viol \cup {<<cur.id, "RaceFree", Trace[l].where>>}
          /\ UNCHANGED <<cur, ver, cfg, memo, stat, tie>>

SkipEv == /\ IsEv("skip") /\ stat' = [stat EXCEPT !.skipped = @ + 1] /\ UNCHANGED <<cur, ver, cfg, memo, viol, tie>>

OtherEv == /\ l <= Len(Trace) /\ Trace[l].ev \notin {"sc", "cfg", "data", "obs", "snap", "dead", "skip", "race"}
           /\ l' = l + 1 /\ UNCHANGED <<cur, ver, cfg, memo, viol, stat, tie>>

Next == Header \/ Vary \/ AppendData \/ Observe \/ Snap \/ DeadEv \/ RaceEv \/ SkipEv \/ OtherEv
Spec == Init /\ [][Next]_vars

Done == l = Len(Trace) + 1 =>
          /\ PrintT(<<"VIOL", ToJson(SetToSeq(viol))>>)
          /\ PrintT(<<"STAT", ToJson(stat)>>)
Accepted == TLCGet("stats").diameter - 1 = Len(Trace)
=============================================================================
