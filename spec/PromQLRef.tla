----------------------------- MODULE PromQLRef -----------------------------
(***************************************************************************)
(* Reference semantics of the natively supported PromQL fragment, as a     *)
(* per-step denotation over integer-valued data (transcription of          *)
(* Prometheus v0.40.1).  "What the answer must be."                        *)
(*                                                                         *)
(* A scenario sc is a record                                               *)
(*   [data, plan, start, end, step, lb, qlb, tickms, ...]                  *)
(* data  : sequence of [ls : Seq(<<name,value>>), smp : Seq([t,k,v])]      *)
(* plan  : sequence of uniform node records in topological order           *)
(* times : integer ticks; step = 0 means instant query at start (end=start)*)
(*                                                                         *)
(* Values are records [k, v]: k = "i" exact integer v; "nan"; "pinf";      *)
(* "ninf"; "op" = OPAQUE (a float the specification does not compute; its  *)
(* agreement with the reference engine is decided by the comparator).      *)
(* A per-step result is [why, unk, vec]: why = the set of reasons for which *)
(* the reference reports an evaluation error at this step (empty = no      *)
(* error); unk = presence/labels depend on an                              *)
(* OPAQUE value or an unmodelled construct (scenario is not "structural"); *)
(* vec = sequence of [ls : set of <<name,value>>, val : value].            *)
(***************************************************************************)
EXTENDS Integers, Sequences, FiniteSets, TLC, SequencesExt, FiniteSetsExt

MetricName == "__name__"

\* ------------------------------------------------------------------ values
I(n)    == [k |-> "i", v |-> n]
NaNV    == [k |-> "nan", v |-> 0]
PInf    == [k |-> "pinf", v |-> 0]
NInf    == [k |-> "ninf", v |-> 0]
Opaque  == [k |-> "op", v |-> 0]
Big     == 536870912                 \* 2^29: TLC integers are 32 bit; beyond this a value is OPAQUE
Small   == 23170                     \* |a|,|b| <= Small  =>  |a*b| < 2^29

Norm(x) == IF x.k = "i" /\ (x.v > Big \/ x.v < -Big) THEN Opaque ELSE x

Abs(n) == IF n < 0 THEN -n ELSE n
Sgn(n) == IF n < 0 THEN -1 ELSE IF n > 0 THEN 1 ELSE 0

SampleVal(s) == CASE s.k = "f"    -> I(s.v)
                  [] s.k = "nan"  -> NaNV
                  [] s.k = "nan2" -> NaNV            \* a NaN of another bit pattern is a NaN
                  [] s.k = "nz"   -> I(0)            \* negative zero is zero
                  [] s.k = "pinf" -> PInf
                  [] s.k = "ninf" -> NInf
                  [] OTHER        -> Opaque

Neg(x) == CASE x.k = "i"    -> I(-x.v)
            [] x.k = "pinf" -> NInf
            [] x.k = "ninf" -> PInf
            [] OTHER        -> x

\* sign of an extended value: -1, 0, 1 (only for i / pinf / ninf)
VSign(x) == CASE x.k = "i" -> Sgn(x.v) [] x.k = "pinf" -> 1 [] x.k = "ninf" -> -1 [] OTHER -> 0

\* a^b for b >= 0 as [ok, v]; ok = FALSE when the magnitude leaves the trusted range
RECURSIVE IPow(_, _)
IPow(a, b) == IF b = 0 THEN [ok |-> TRUE, v |-> 1] ELSE
              LET r == IPow(a, b - 1) IN
              IF ~r.ok \/ Abs(r.v) > Small \/ Abs(a) > Small THEN [ok |-> FALSE, v |-> 0]
              ELSE [ok |-> TRUE, v |-> a * r.v]

Arith(op, a, b) ==
  IF a.k = "op" \/ b.k = "op" THEN Opaque
  ELSE IF op \in {"^", "atan2"} /\ (a.k # "i" \/ b.k # "i") THEN Opaque
  ELSE IF a.k = "nan" \/ b.k = "nan" THEN NaNV
  ELSE
  CASE op = "+" ->
         IF a.k = "i" /\ b.k = "i" THEN Norm(I(a.v + b.v))
         ELSE IF a.k = "i" THEN b ELSE IF b.k = "i" THEN a
         ELSE IF a.k = b.k THEN a ELSE NaNV
    [] op = "-" ->
         IF a.k = "i" /\ b.k = "i" THEN Norm(I(a.v - b.v))
         ELSE IF a.k = "i" THEN Neg(b) ELSE IF b.k = "i" THEN a
         ELSE IF a.k = b.k THEN NaNV ELSE a
    [] op = "*" ->
         IF a.k = "i" /\ b.k = "i" THEN
            (IF a.v = 0 \/ b.v = 0 THEN I(0)
             ELSE IF Abs(a.v) <= Small /\ Abs(b.v) <= Small THEN Norm(I(a.v * b.v)) ELSE Opaque)
         ELSE IF VSign(a) = 0 \/ VSign(b) = 0 THEN NaNV
         ELSE IF VSign(a) * VSign(b) > 0 THEN PInf ELSE NInf
    [] op = "/" ->
         IF a.k = "i" /\ b.k = "i" THEN
            IF b.v = 0 THEN (IF a.v > 0 THEN PInf ELSE IF a.v < 0 THEN NInf ELSE NaNV)
            ELSE IF Abs(a.v) % Abs(b.v) = 0 THEN I(Sgn(a.v) * Sgn(b.v) * (Abs(a.v) \div Abs(b.v)))
            ELSE Opaque
         ELSE IF a.k # "i" /\ b.k # "i" THEN NaNV
         ELSE IF a.k = "i" THEN I(0)            \* finite / inf  (sign of zero is invisible)
         ELSE IF b.v = 0 THEN a                  \* inf / +0
         ELSE IF VSign(a) * VSign(b) > 0 THEN PInf ELSE NInf
    [] op = "%" ->
         IF a.k = "i" /\ b.k = "i" THEN
            IF b.v = 0 THEN NaNV ELSE I(Sgn(a.v) * (Abs(a.v) % Abs(b.v)))
         ELSE IF a.k # "i" THEN NaNV             \* Mod(inf, y) = NaN
         ELSE a                                  \* Mod(x, inf) = x
    [] op = "^" ->
         IF b.v >= 0 /\ b.v <= 32 THEN (LET r == IPow(a.v, b.v) IN IF r.ok THEN Norm(I(r.v)) ELSE Opaque)
         ELSE IF a.v = 1 THEN I(1) ELSE Opaque
    [] OTHER -> Opaque

\* three-valued comparison: "T", "F", "U"
Cmp(op, a, b) ==
  IF a.k = "op" \/ b.k = "op" THEN "U"
  ELSE IF a.k = "nan" \/ b.k = "nan" THEN (IF op = "!=" THEN "T" ELSE "F")
  ELSE LET \* order key: ninf < ints < pinf
           lt == \/ (a.k = "ninf" /\ b.k # "ninf")
                 \/ (b.k = "pinf" /\ a.k # "pinf")
                 \/ (a.k = "i" /\ b.k = "i" /\ a.v < b.v)
           eq == a.k = b.k /\ (a.k # "i" \/ a.v = b.v)
           r  == CASE op = "==" -> eq
                   [] op = "!=" -> ~eq
                   [] op = "<"  -> lt
                   [] op = ">"  -> ~lt /\ ~eq
                   [] op = "<=" -> lt \/ eq
                   [] op = ">=" -> ~lt
       IN IF r THEN "T" ELSE "F"

IsCmpOp(op)   == op \in {"==", "!=", "<", ">", "<=", ">="}
IsArithOp(op) == op \in {"+", "-", "*", "/", "%", "^", "atan2"}
\* at the pinned version atan2 is NOT in shouldDropMetricName
DropsName(op) == op \in {"+", "-", "*", "/", "%", "^"}
IsSetOp(op)   == op \in {"and", "or", "unless"}

\* ------------------------------------------------------------------ labels
LGet(ls, n) == IF \E p \in ls : p[1] = n THEN (CHOOSE p \in ls : p[1] = n)[2] ELSE ""
LKeep(ls, names) == {p \in ls : p[1] \in names}
LDrop(ls, names) == {p \in ls : p[1] \notin names}
DropName(ls) == LDrop(ls, {MetricName})
LSetL(ls, n, v) == IF v = "" THEN LDrop(ls, {n}) ELSE LDrop(ls, {n}) \cup {<<n, v>>}

MatchVal(m, x) == CASE m.t = "="  -> x = m.v
                    [] m.t = "!=" -> x # m.v
                    [] m.t = "=~" -> x \in ToSet(m.acc)
                    [] m.t = "!~" -> x \notin ToSet(m.acc)
MatchesAll(ms, ls) == \A i \in 1..Len(ms) : MatchVal(ms[i], LGet(ls, ms[i].n))

HasDupLS(vec) == \E i, j \in 1..Len(vec) : i < j /\ vec[i].ls = vec[j].ls

\* ------------------------------------------------------------------ time
Lookback(sc) == IF sc.qlb > 0 THEN sc.qlb ELSE sc.lb

RefTime(sc, n, t) == CASE n.atk = "lit"   -> n.at - n.off
                       [] n.atk = "start" -> sc.start - n.off
                       [] n.atk = "end"   -> sc.end - n.off
                       [] OTHER           -> t - n.off

Grid(sc) == IF sc.step = 0 THEN <<sc.start>>
            ELSE [i \in 1..((sc.end - sc.start) \div sc.step + 1) |-> sc.start + (i - 1) * sc.step]

\* seconds value of tick t
\* (a replayed scenario may have been moved to a present-day time base: the traces report times relative to it, but
\*  the values of time() and timestamp() are absolute then - OPAQUE here, compared with the reference engine)
Seconds(sc, t) == IF "base" \in DOMAIN sc /\ sc.base # 0 THEN Opaque
                  ELSE IF (t * sc.tickms) % 1000 = 0 THEN I((t * sc.tickms) \div 1000) ELSE Opaque

\* ------------------------------------------------------------------ selection
\* index of the selected sample of series d at reference time ref, 0 if none
SelIdx(d, ref, lb) ==
  LET c == {i \in 1..Len(d.smp) : d.smp[i].t <= ref /\ d.smp[i].t >= ref - lb}
  IN IF c = {} THEN 0 ELSE LET m == Max(c) IN IF d.smp[m].k = "s" THEN 0 ELSE m

\* indices of the non-stale samples of d in the window [ref - rng, ref]
WinIdx(d, ref, rng) == {i \in 1..Len(d.smp) : d.smp[i].t <= ref /\ d.smp[i].t >= ref - rng /\ d.smp[i].k # "s"}

Matching(sc, n) == SelectSeq([j \in 1..Len(sc.data) |-> j], LAMBDA j : MatchesAll(n.m, ToSet(sc.data[j].ls)))

\* ------------------------------------------------------------------ range-function kernels
RangeFns == {"count_over_time", "sum_over_time", "min_over_time", "max_over_time", "last_over_time",
             "present_over_time", "changes", "resets", "avg_over_time", "stddev_over_time",
             "stdvar_over_time", "rate", "increase", "delta", "deriv", "irate", "idelta"}
NeedsTwo == {"rate", "increase", "delta", "deriv", "irate", "idelta"}

WinSeq(d, W) == LET s == SetToSortSeq(W, LAMBDA x, y : x < y) IN [i \in 1..Len(s) |-> SampleVal(d.smp[s[i]])]

RECURSIVE SumVals(_)
SumVals(s) == IF Len(s) = 0 THEN I(0) ELSE Arith("+", SumVals(Front(s)), Last(s))

VLess(a, b) == Cmp("<", a, b) = "T"
RECURSIVE MaxVal(_)
\* Prometheus: max starts with the first value and is replaced when v > max or max is NaN
MaxVal(s) == IF Len(s) = 1 THEN s[1]
             ELSE LET m == MaxVal(Front(s)) x == Last(s) IN
                  IF m.k = "op" \/ x.k = "op" THEN Opaque
                  ELSE IF m.k = "nan" \/ VLess(m, x) THEN x ELSE m
RECURSIVE MinVal(_)
MinVal(s) == IF Len(s) = 1 THEN s[1]
             ELSE LET m == MinVal(Front(s)) x == Last(s) IN
                  IF m.k = "op" \/ x.k = "op" THEN Opaque
                  ELSE IF m.k = "nan" \/ VLess(x, m) THEN x ELSE m

AllInt(s) == \A i \in 1..Len(s) : s[i].k = "i"

Kernel(fn, s) ==
  CASE fn = "count_over_time"   -> I(Len(s))
    [] fn = "present_over_time" -> I(1)
    [] fn = "last_over_time"    -> s[Len(s)]
    [] fn = "sum_over_time"     -> IF AllInt(s) THEN SumVals(s) ELSE Opaque
    \* the reference starts with the first value and replaces it when v > max (v < min) or max (min) is NaN:
    \* a NaN is skipped as soon as the window also holds a number
    [] fn = "max_over_time"     -> MaxVal(s)
    [] fn = "min_over_time"     -> MinVal(s)
    \* (values compared as values: a NaN after a NaN is no change, an infinity after the same infinity neither;
    \*  nothing is smaller than a NaN and a NaN is smaller than nothing)
    [] fn = "changes"           -> IF \A i \in 1..Len(s) : s[i].k # "op" THEN I(Cardinality({i \in 2..Len(s) : s[i] # s[i-1]})) ELSE Opaque
    [] fn = "resets"            -> IF \A i \in 1..Len(s) : s[i].k # "op" THEN I(Cardinality({i \in 2..Len(s) : Cmp("<", s[i], s[i-1]) = "T"})) ELSE Opaque
    \* the difference of the last two samples (no extrapolation, no counter semantics)
    [] fn = "idelta"            -> IF Len(s) >= 2 THEN Arith("-", s[Len(s)], s[Len(s) - 1]) ELSE Opaque
    [] OTHER                    -> Opaque

\* ------------------------------------------------------------------ node typing
RECURSIVE IsScalarNode(_, _)
IsScalarNode(pl, i) ==
  LET n == pl[i] IN
  CASE n.op = "num" -> TRUE
    [] n.op = "fn"  -> n.fn \in {"time", "pi", "scalar"}
    [] n.op \in {"neg", "paren"} -> IsScalarNode(pl, n.args[1])
    [] n.op = "bin" -> IsScalarNode(pl, n.args[1]) /\ IsScalarNode(pl, n.args[2])
    [] OTHER -> FALSE

\* Step invariance as the reference engine's PreprocessExpr decides it.  A step-invariant
\* subtree is evaluated once, at the start of the window.  The only place where this differs
\* from per-step evaluation is the PARAMETER of an aggregation whose operand is step invariant:
\* PreprocessExpr does not look at the parameter, so it is evaluated at the start as well.
UnsafeFns == {"time", "timestamp", "days_in_month", "day_of_month", "day_of_week", "day_of_year", "hour", "minute",
              "month", "year", "predict_linear"}
RECURSIVE Inv(_, _)
Inv(pl, i) ==
  LET n == pl[i] IN
  CASE n.op \in {"num", "str"} -> TRUE
    [] n.op \in {"sel", "rfn"} -> n.atk # "none"
    [] n.op \in {"paren", "neg"} -> Inv(pl, n.args[1])
    [] n.op = "agg" -> Inv(pl, n.args[Len(n.args)])
    [] n.op = "bin" -> Inv(pl, n.args[1]) /\ Inv(pl, n.args[2])
    [] n.op = "fn"  -> n.fn \notin UnsafeFns /\ \A k \in 1..Len(n.args) : Inv(pl, n.args[k])
    [] OTHER -> FALSE

NumVal(n) == IF n.vs = "" THEN I(n.v)
             ELSE CASE n.vs = "NaN" -> NaNV [] n.vs = "Inf" -> PInf [] n.vs = "-Inf" -> NInf [] OTHER -> Opaque

\* ------------------------------------------------------------------ aggregation
AggFns == {"sum", "min", "max", "count", "group", "avg", "stddev", "stdvar", "quantile", "topk", "bottomk"}

GroupKey(n, ls) == IF n.by THEN LKeep(ls, ToSet(n.grp)) ELSE LDrop(ls, ToSet(n.grp) \cup {MetricName})

Reduce(fn, vals) ==
  CASE fn = "sum"   -> SumVals(vals)
    [] fn = "count" -> I(Len(vals))
    [] fn = "group" -> I(1)
    [] fn = "max"   -> MaxVal(vals)
    [] fn = "min"   -> MinVal(vals)
    [] OTHER        -> Opaque

\* topk / bottomk of one group: members is a sequence of elements [ls, val].
\* Returns [unk, keep] where keep is the set of kept indices.
TopK(fn, k, members) ==
  LET n == Len(members)
      better(i, j) == \* i strictly precedes j in the ranking; NaN ranks last
         IF members[j].val.k = "nan" THEN members[i].val.k # "nan"
         ELSE IF members[i].val.k = "nan" THEN FALSE
         ELSE IF fn = "topk" THEN VLess(members[j].val, members[i].val) ELSE VLess(members[i].val, members[j].val)
      rank(i) == Cardinality({j \in 1..n : better(j, i)})      \* number of strictly better members
      anyop == \E i \in 1..n : members[i].val.k = "op"
      keep == {i \in 1..n : rank(i) < k}
  IN IF k >= n THEN [unk |-> FALSE, keep |-> 1..n]
     ELSE IF anyop THEN [unk |-> TRUE, keep |-> {}]
     ELSE [unk |-> Cardinality(keep) # k, keep |-> keep]     \* a tie at the cut: order dependent

\* ------------------------------------------------------------------ instant functions
SimpleMath == {"abs", "ceil", "floor", "exp", "sqrt", "ln", "log2", "log10", "sin", "cos", "tan",
               "asin", "acos", "atan", "sinh", "cosh", "tanh", "asinh", "acosh", "atanh", "rad", "deg"}

MathVal(fn, x) ==
  IF x.k = "nan" THEN NaNV
  ELSE CASE fn = "abs" -> (IF x.k = "i" THEN I(Abs(x.v)) ELSE IF x.k = "op" THEN Opaque ELSE PInf)
         [] fn \in {"ceil", "floor"} -> x
         [] OTHER -> Opaque

\* Go's math.Min(x, -Inf) = -Inf and math.Max(x, +Inf) = +Inf even when x is NaN
ClampMax(v, mx) == IF v.k = "op" \/ mx.k = "op" THEN Opaque            \* math.Min(max, v)
                   ELSE IF v.k = "ninf" \/ mx.k = "ninf" THEN NInf
                   ELSE IF v.k = "nan" \/ mx.k = "nan" THEN NaNV
                   ELSE IF VLess(v, mx) THEN v ELSE mx
ClampMin(v, mn) == IF v.k = "op" \/ mn.k = "op" THEN Opaque            \* math.Max(min, v)
                   ELSE IF v.k = "pinf" \/ mn.k = "pinf" THEN PInf
                   ELSE IF v.k = "nan" \/ mn.k = "nan" THEN NaNV
                   ELSE IF VLess(mn, v) THEN v ELSE mn

\* ------------------------------------------------------------------ histogram_quantile
\* bucketQuantile of the pinned reference, transcribed: bucket counts are integers or NaN, upper bounds integers
\* or +Inf, the quantile is given in tenths.  Every structural case is decided here (NaN quantile, quantile out of
\* [0, 1], no +Inf bucket, fewer than two buckets after coalescing equal bounds, no observations, counts made
\* monotonic, the binary search - whose predicate is not monotonic when a count is NaN - ending in the +Inf
\* bucket or in a first bucket with a non-positive bound); the interpolated value is exact when it is an integer.
LeParse(s) == CASE s \in {"1", "1.0", "1e0"} -> I(1) [] s \in {"2", "2.0"} -> I(2) [] s = "4" -> I(4) [] s = "10" -> I(10)
                [] s = "0" -> I(0) [] s = "-1" -> I(-1) [] s \in {"+Inf", "Inf"} -> PInf
                [] OTHER -> Opaque            \* not a number (also: no le label at all): the sample is skipped
QTenths(n, val) == IF n.op = "num" /\ n.vs \in {"0.1", "0.5", "0.9"} THEN I(CASE n.vs = "0.1" -> 1 [] n.vs = "0.5" -> 5 [] OTHER -> 9)
                   ELSE IF val.k = "i" THEN (IF val.v > 10 THEN PInf ELSE IF val.v < -10 THEN NInf ELSE I(10 * val.v)) ELSE val
\* buckets: sequence of [ub, c] sorted by ub
RECURSIVE HCoalesce(_)
HCoalesce(bs) == IF Len(bs) <= 1 THEN bs
                 ELSE LET r == HCoalesce(Front(bs))  b == Last(bs) IN
                      IF r[Len(r)].ub = b.ub THEN [r EXCEPT ![Len(r)].c = Arith("+", @, b.c)] ELSE Append(r, b)
RECURSIVE HMono(_, _, _)
HMono(bs, i, mx) == IF i > Len(bs) THEN bs
                    ELSE IF Cmp(">", bs[i].c, mx) = "T" THEN HMono(bs, i + 1, bs[i].c)
                    ELSE IF Cmp("<", bs[i].c, mx) = "T" THEN HMono([bs EXCEPT ![i].c = mx], i + 1, mx)
                    ELSE HMono(bs, i + 1, mx)
\* sort.Search(n, f): f is given as the sequence f[1..n] (index h of the reference is h + 1 here)
RECURSIVE HSearch(_, _, _)
HSearch(i, j, f) == IF i >= j THEN i ELSE LET h == (i + j) \div 2 IN IF ~f[h + 1] THEN HSearch(h + 1, j, f) ELSE HSearch(i, h, f)
BucketQuantile(q10, sorted) ==
  IF q10.k = "nan" THEN NaNV
  ELSE IF q10.k = "ninf" \/ (q10.k = "i" /\ q10.v < 0) THEN NInf
  ELSE IF q10.k = "pinf" \/ (q10.k = "i" /\ q10.v > 10) THEN PInf
  ELSE IF q10.k # "i" THEN Opaque
  ELSE IF sorted[Len(sorted)].ub.k # "pinf" THEN NaNV
  ELSE LET cb == HCoalesce(sorted)  mb == HMono(cb, 2, cb[1].c)  L == Len(mb) IN
       IF L < 2 THEN NaNV
       ELSE LET obs == mb[L].c IN
            IF obs.k = "op" \/ (\E i \in 1..L : mb[i].c.k \notin {"i", "nan"} \/ (mb[i].c.k = "i" /\ Abs(mb[i].c.v) > Small)) THEN Opaque
            ELSE IF obs.k = "i" /\ obs.v = 0 THEN NaNV
            ELSE LET f == [i \in 1..(L - 1) |-> mb[i].c.k = "i" /\ obs.k = "i" /\ 10 * mb[i].c.v >= q10.v * obs.v]
                     b == HSearch(0, L - 1, f) + 1           \* 1-based
                 IN IF b = L THEN mb[L - 1].ub
                    ELSE IF b = 1 /\ mb[1].ub.v <= 0 THEN mb[1].ub
                    ELSE LET start == IF b > 1 THEN mb[b - 1].ub.v ELSE 0
                             prev  == IF b > 1 THEN mb[b - 1].c ELSE I(0)
                         IN IF prev.k # "i" THEN NaNV
                            ELSE LET cnt == mb[b].c.v - prev.v
                                     num == (mb[b].ub.v - start) * (q10.v * obs.v - 10 * prev.v)
                                     den == 10 * cnt
                                 IN IF cnt = 0 THEN NaNV
                                    ELSE IF den > 0 /\ num >= 0 /\ num % den = 0 THEN I(start + num \div den) ELSE Opaque

\* ------------------------------------------------------------------ evaluation
Res(why, unk, vec) == [why |-> why, unk |-> unk, vec |-> vec]
OK == {}
DupLS(v) == IF HasDupLS(v) THEN {"dupls"} ELSE {}
ScalarRes(x) == Res(OK, FALSE, <<[ls |-> {}, val |-> x]>>)
MapVec(vec, F(_)) == [i \in 1..Len(vec) |-> F(vec[i])]

RECURSIVE Eval(_, _, _), EvalFn(_, _, _), EvalAgg(_, _, _), EvalBin(_, _, _)
Eval(sc, i, t) ==
  LET pl == sc.plan
      n  == pl[i]
  IN
  CASE n.op = "num" -> ScalarRes(NumVal(n))

    \* a constant vector per step (used by Distribute.tla for the results of remote engines)
    [] n.op = "const" -> n.tbl[t]

    [] n.op = "sel" ->
         LET ref == RefTime(sc, n, t)
             js  == Matching(sc, n)
             hit == SelectSeq(js, LAMBDA j : SelIdx(sc.data[j], ref, Lookback(sc)) # 0)
         IN Res(OK, FALSE,
                [x \in 1..Len(hit) |->
                   LET d == sc.data[hit[x]] IN
                   [ls |-> ToSet(d.ls), val |-> SampleVal(d.smp[SelIdx(d, ref, Lookback(sc))]),
                    ts |-> d.smp[SelIdx(d, ref, Lookback(sc))].t]])

    [] n.op = "rfn" ->
         LET ref  == RefTime(sc, n, t)
             js   == Matching(sc, n)
             need == IF n.fn \in NeedsTwo THEN 2 ELSE 1
             hit  == SelectSeq(js, LAMBDA j : Cardinality(WinIdx(sc.data[j], ref, n.rng)) >= need)
             outls(d) == IF n.fn = "last_over_time" THEN ToSet(d.ls) ELSE DropName(ToSet(d.ls))
             \* two matching series that collide after the name is dropped: the reference evaluates a function
             \* over a range vector for the whole window at once and fails the query if both produce a point
             \* anywhere in it (not necessarily at the same step)
             yields(j) == \E x \in 1..Len(Grid(sc)) : Cardinality(WinIdx(sc.data[j], RefTime(sc, n, Grid(sc)[x]), n.rng)) >= need
             coll == \E a, b \in 1..Len(js) : a < b /\ outls(sc.data[js[a]]) = outls(sc.data[js[b]]) /\ yields(js[a]) /\ yields(js[b])
         IN Res(IF coll THEN {"dupls"} ELSE OK, n.fn \notin RangeFns,
                [x \in 1..Len(hit) |->
                   LET d == sc.data[hit[x]] IN
                   [ls |-> outls(d), val |-> Kernel(n.fn, WinSeq(d, WinIdx(d, ref, n.rng)))]])

    [] n.op = "paren" -> Eval(sc, n.args[1], t)

    [] n.op = "neg" ->
         LET a == Eval(sc, n.args[1], t)
             v == MapVec(a.vec, LAMBDA e : [ls |-> DropName(e.ls), val |-> Neg(e.val)])
             \* the reference negates the operand's matrix of the whole window and then looks for equal label sets:
             \* two series that differ in the name only must not both have a point anywhere in the window
             \* (looked for only when the data holds such a pair at all)
             pot == \E j, k \in 1..Len(sc.data) : j < k /\ DropName(ToSet(sc.data[j].ls)) = DropName(ToSet(sc.data[k].ls))
             all == IF pot THEN UNION {{e.ls : e \in ToSet(Eval(sc, n.args[1], Grid(sc)[x]).vec)} : x \in 1..Len(Grid(sc))} ELSE {}
             anywhere == \E l1, l2 \in all : l1 # l2 /\ DropName(l1) = DropName(l2)
         IN IF IsScalarNode(pl, n.args[1]) THEN Res(a.why, a.unk, MapVec(a.vec, LAMBDA e : [ls |-> {}, val |-> Neg(e.val)]))
            ELSE Res(a.why \cup DupLS(v) \cup (IF anywhere THEN {"dupls"} ELSE {}), a.unk, v)

    [] n.op = "fn" -> EvalFn(sc, i, t)
    [] n.op = "agg" -> EvalAgg(sc, i, t)
    [] n.op = "bin" -> EvalBin(sc, i, t)
    [] OTHER -> Res(OK, TRUE, <<>>)

\* scalar value of a scalar-typed node at t
SVal(r) == IF Len(r.vec) = 1 THEN r.vec[1].val ELSE NaNV

EvalFn(sc, i, t) ==
  LET pl == sc.plan
      n  == pl[i]
      A(k) == Eval(sc, n.args[k], t)
  IN
  CASE n.fn = "time" -> ScalarRes(Seconds(sc, t))
    [] n.fn = "pi"   -> ScalarRes(Opaque)
    [] n.fn = "vector" -> LET a == A(1) IN Res(a.why, a.unk, <<[ls |-> {}, val |-> SVal(a)]>>)
    [] n.fn = "scalar" -> LET a == A(1) IN
                          Res(a.why, a.unk, <<[ls |-> {}, val |-> IF Len(a.vec) = 1 THEN a.vec[1].val ELSE NaNV]>>)
    [] n.fn \in SimpleMath ->
         LET a == A(1)
             v == MapVec(a.vec, LAMBDA e : [ls |-> DropName(e.ls), val |-> MathVal(n.fn, e.val)])
         IN Res(a.why \cup DupLS(v), a.unk, v)
    [] n.fn = "timestamp" ->
         LET a == A(1)
             \* the reference looks through parentheses (not through a unary plus) for a selector
             RECURSIVE Direct(_)
             Direct(j) == pl[j].op = "sel" \/ (pl[j].op = "paren" /\ pl[j].fn # "+" /\ Direct(pl[j].args[1]))
             direct == Direct(n.args[1])
             v == MapVec(a.vec, LAMBDA e : [ls |-> DropName(e.ls),
                                            val |-> IF direct THEN Seconds(sc, e.ts) ELSE Seconds(sc, t)])
         IN Res(a.why \cup DupLS(v), a.unk, v)
    [] n.fn \in {"clamp_min", "clamp_max"} ->
         LET a == A(1)  b == A(2)  s == SVal(b)
             v == MapVec(a.vec, LAMBDA e : [ls |-> DropName(e.ls),
                           val |-> IF n.fn = "clamp_min" THEN ClampMin(e.val, s) ELSE ClampMax(e.val, s)])
         IN Res(a.why \cup b.why \cup DupLS(v), a.unk \/ b.unk, v)
    [] n.fn = "clamp" ->
         LET a == A(1)  b == A(2)  c == A(3)  mn == SVal(b)  mx == SVal(c)
             inv == Cmp("<", mx, mn)
             v == MapVec(a.vec, LAMBDA e : [ls |-> DropName(e.ls), val |-> ClampMin(ClampMax(e.val, mx), mn)])
         IN IF inv = "T" THEN Res(a.why \cup b.why \cup c.why, a.unk \/ b.unk \/ c.unk, <<>>)
            ELSE Res(a.why \cup b.why \cup c.why \cup DupLS(v), a.unk \/ b.unk \/ c.unk \/ inv = "U", v)
    [] n.fn = "histogram_quantile" ->
         \* samples without a parsable le are skipped; the others are grouped by all their labels but le (the metric
         \* name included); every group yields one sample without name and le - two groups of different metrics
         \* with otherwise equal labels are duplicates
         LET p == A(1)  a == A(2)
             q10 == QTenths(pl[n.args[1]], SVal(p))
             ok == SelectSeq(a.vec, LAMBDA e : LeParse(LGet(e.ls, "le")).k # "op")
             keyOf(e) == LDrop(e.ls, {"le"})
             ks == SetToSeq({keyOf(ok[x]) : x \in 1..Len(ok)})
             bucketsOf(k) == SortSeq([y \in 1..Len(SelectSeq(ok, LAMBDA e : keyOf(e) = k)) |->
                                        LET e == SelectSeq(ok, LAMBDA e2 : keyOf(e2) = k)[y] IN [ub |-> LeParse(LGet(e.ls, "le")), c |-> e.val]],
                                     LAMBDA x, y : Cmp("<", x.ub, y.ub) = "T")
             v == [x \in 1..Len(ks) |-> [ls |-> DropName(ks[x]), val |-> BucketQuantile(q10, bucketsOf(ks[x]))]]
         IN Res(a.why \cup p.why \cup DupLS(v), a.unk \/ p.unk, v)
    [] OTHER -> Res(OK, TRUE, <<>>)

EvalAgg(sc, i, t) ==
  LET pl  == sc.plan
      n   == pl[i]
      hasP == Len(n.args) = 2
      p   == IF hasP THEN Eval(sc, n.args[1], IF Inv(pl, n.args[Len(n.args)]) THEN sc.start ELSE t) ELSE ScalarRes(I(0))
      a   == Eval(sc, n.args[Len(n.args)], t)
      pv  == SVal(p)
      keys == {GroupKey(n, a.vec[x].ls) : x \in 1..Len(a.vec)}
      members(k) == SelectSeq(a.vec, LAMBDA e : GroupKey(n, e.ls) = k)
      ks  == SetToSeq(keys)
  IN
  IF n.fn \notin AggFns THEN Res(OK, TRUE, <<>>)
  ELSE IF n.fn \in {"topk", "bottomk"} THEN
       \* k is converted with int64(); NaN and out-of-range values are an error
       \* (the conversion is done at every step, also when the operand is empty at that step)
       IF pv.k \in {"nan", "pinf", "ninf"} THEN Res(a.why \cup p.why \cup {"kparam"}, a.unk \/ p.unk, <<>>)
       ELSE IF pv.k = "op" THEN Res(a.why \cup p.why, TRUE, <<>>)
       ELSE IF pv.v < 1 THEN Res(a.why \cup p.why, a.unk \/ p.unk, <<>>)
       ELSE LET sel(k) == TopK(n.fn, pv.v, members(k))
                out == FlattenSeq([x \in 1..Len(ks) |->
                          LET m == members(ks[x]) s == sel(ks[x]) IN
                          SelectSeq([y \in 1..Len(m) |-> [ls |-> m[y].ls, val |-> m[y].val, keep |-> y \in s.keep]],
                                    LAMBDA e : e.keep)])
            IN Res(a.why \cup p.why, a.unk \/ p.unk \/ (\E k \in keys : sel(k).unk),
                   MapVec(out, LAMBDA e : [ls |-> e.ls, val |-> e.val]))
  ELSE Res(a.why \cup p.why, a.unk \/ p.unk,
           [x \in 1..Len(ks) |->
              [ls |-> ks[x], val |-> Reduce(n.fn, MapVec(members(ks[x]), LAMBDA e : e.val))]])

Sig(n, ls) == IF n.on THEN LKeep(ls, ToSet(n.ml)) ELSE LDrop(ls, ToSet(n.ml) \cup {MetricName})

\* result metric of a matched pair: many = the "many"-side element's labels, one = the other side's
ResultMetric(n, many, one) ==
  LET base0 == IF DropsName(n.fn) \/ n.bool THEN DropName(many) ELSE many
      base  == IF n.card = "1:1"
                 THEN (IF n.on THEN LKeep(base0, ToSet(n.ml)) ELSE LDrop(base0, ToSet(n.ml)))
                 ELSE base0
      RECURSIVE Inc(_, _)
      Inc(ls, k) == IF k = 0 THEN ls ELSE LSetL(Inc(ls, k - 1), n.inc[k], LGet(one, n.inc[k]))
  IN Inc(base, Len(n.inc))

EvalBin(sc, i, t) ==
  LET pl == sc.plan
      n  == pl[i]
      l  == Eval(sc, n.args[1], t)
      r  == Eval(sc, n.args[2], t)
      ls == IsScalarNode(pl, n.args[1])
      rs == IsScalarNode(pl, n.args[2])
      why == l.why \cup r.why
      unk == l.unk \/ r.unk
  IN
  IF IsSetOp(n.fn) THEN Res(OK, TRUE, <<>>)
  ELSE IF ls /\ rs THEN
     LET a == SVal(l) b == SVal(r) IN
     IF IsCmpOp(n.fn)
       THEN LET c == Cmp(n.fn, a, b) IN
            ScalarRes(IF c = "U" THEN Opaque ELSE IF c = "T" THEN I(1) ELSE I(0))
       ELSE ScalarRes(Arith(n.fn, a, b))
  ELSE IF ls \/ rs THEN
     \* vector (op) scalar
     LET vecr == IF ls THEN r ELSE l
         s    == IF ls THEN SVal(l) ELSE SVal(r)
         lhs(e) == IF ls THEN s ELSE e.val
         rhs(e) == IF ls THEN e.val ELSE s
     IN IF IsCmpOp(n.fn) THEN
          LET c(e) == Cmp(n.fn, lhs(e), rhs(e))
              anyU == \E x \in 1..Len(vecr.vec) : c(vecr.vec[x]) = "U"
          IN IF n.bool THEN
               LET v == MapVec(vecr.vec, LAMBDA e : [ls |-> DropName(e.ls),
                                  val |-> IF c(e) = "U" THEN Opaque ELSE IF c(e) = "T" THEN I(1) ELSE I(0)])
               IN Res(why \cup DupLS(v), unk, v)
             ELSE
               LET kept == SelectSeq(vecr.vec, LAMBDA e : c(e) = "T")
               IN Res(why, unk \/ anyU, MapVec(kept, LAMBDA e : [ls |-> e.ls, val |-> e.val]))
        ELSE
          LET v == MapVec(vecr.vec, LAMBDA e : [ls |-> IF DropsName(n.fn) THEN DropName(e.ls) ELSE e.ls,
                                                val |-> Arith(n.fn, lhs(e), rhs(e))])
          IN Res(why \cup DupLS(v), unk, v)
  ELSE
     \* vector (op) vector
     LET swap  == n.card = "1:N"
         manyV == IF swap THEN r.vec ELSE l.vec        \* the "many" side (lhs unless group_right)
         oneV  == IF swap THEN l.vec ELSE r.vec        \* the "one" side
         dupSigs == {Sig(n, oneV[x].ls) : x \in {x \in 1..Len(oneV) : \E y \in 1..Len(oneV) : x # y /\ Sig(n, oneV[x].ls) = Sig(n, oneV[y].ls)}}
         dupOne == dupSigs # {}
         \* does some duplicated one-side signature have a partner on the many side at this step ?
         dupPartner == \E x \in 1..Len(manyV) : Sig(n, manyV[x].ls) \in dupSigs
         match(e) == SelectSeq(oneV, LAMBDA o : Sig(n, o.ls) = Sig(n, e.ls))
         \* operands in source order
         lv(e, o) == IF swap THEN o.val ELSE e.val
         rv(e, o) == IF swap THEN e.val ELSE o.val
         pairs == SelectSeq(manyV, LAMBDA e : Len(match(e)) > 0)
         cmpr(e) == Cmp(n.fn, lv(e, match(e)[1]), rv(e, match(e)[1]))
         anyU  == IsCmpOp(n.fn) /\ \E x \in 1..Len(pairs) : cmpr(pairs[x]) = "U"
         kept  == IF IsCmpOp(n.fn) /\ ~n.bool THEN SelectSeq(pairs, LAMBDA e : cmpr(e) = "T") ELSE pairs
         outv(e) == LET o == match(e)[1] IN
                    IF IsCmpOp(n.fn)
                      THEN (IF n.bool THEN (IF cmpr(e) = "U" THEN Opaque ELSE IF cmpr(e) = "T" THEN I(1) ELSE I(0))
                            ELSE lv(e, o))
                      ELSE Arith(n.fn, lv(e, o), rv(e, o))
         out   == MapVec(kept, LAMBDA e : [ls |-> ResultMetric(n, e.ls, match(e)[1].ls), val |-> outv(e), sig |-> Sig(n, e.ls)])
         \* one-to-one: two kept pairs with the same signature; many-to-one: same signature and same result metric
         multi == \E x, y \in 1..Len(out) : x < y /\ out[x].sig = out[y].sig /\ (n.card = "1:1" \/ out[x].ls = out[y].ls)
         v     == MapVec(out, LAMBDA e : [ls |-> e.ls, val |-> e.val])
     IN IF Len(l.vec) = 0 \/ Len(r.vec) = 0 THEN Res(why, unk, <<>>)
        ELSE IF dupOne THEN Res(why \cup {IF dupPartner THEN "dupone-partner" ELSE "dupone-nopartner"}, unk, <<>>)
        ELSE Res(why \cup (IF multi THEN {IF n.card = "1:1" THEN "multi-1to1" ELSE "multi-group"} ELSE {}) \cup DupLS(v),
                 unk \/ anyU, v)

\* ------------------------------------------------------------------ order dependence
\* With a tie at the cut of a topk/bottomk group (or values the specification does not know) the
\* reference result depends on the storage's series order and is not a function of the data:
\* such scenarios are excluded from the comparison with the reference engine.
TieAt(sc, i, t) ==
  LET pl == sc.plan  n == pl[i]
      p  == Eval(sc, n.args[1], IF Inv(pl, n.args[2]) THEN sc.start ELSE t)
      a  == Eval(sc, n.args[2], t)
      pv == SVal(p)
      keys == {GroupKey(n, a.vec[x].ls) : x \in 1..Len(a.vec)}
  IN IF pv.k = "op" THEN Len(a.vec) > 1
     ELSE IF pv.k # "i" \/ pv.v < 1 THEN FALSE
     ELSE \E k \in keys : TopK(n.fn, pv.v, SelectSeq(a.vec, LAMBDA e : GroupKey(n, e.ls) = k)).unk
RECURSIVE MayTie(_, _, _)
MayTie(sc, i, t) ==
  LET n == sc.plan[i] IN
  \/ \E k \in 1..Len(n.args) : MayTie(sc, n.args[k], t)
  \/ (n.op = "agg" /\ n.fn \in {"topk", "bottomk"} /\ Len(n.args) = 2 /\ TieAt(sc, i, t))
AnyTie(sc) == LET g == Grid(sc) IN \E x \in 1..Len(g) : MayTie(sc, Len(sc.plan), g[x])

\* ------------------------------------------------------------------ whole-query results
Root(sc) == Len(sc.plan)
StepRes(sc, t) == Eval(sc, Root(sc), t)

\* The per-step results over the grid (by definition the range result: C07 is the statement
\* that the engine agrees with this).
GridRes(sc) == LET g == Grid(sc) IN [x \in 1..Len(g) |-> StepRes(sc, g[x])]

AnyErr(gr) == \E x \in 1..Len(gr) : gr[x].why # {}
Whys(gr) == UNION {gr[x].why : x \in 1..Len(gr)}
AnyUnk(gr) == \E x \in 1..Len(gr) : gr[x].unk
=============================================================================
