---------------------------- MODULE Gen_Fallback -----------------------------
(***************************************************************************)
(* C08 scenario generator: the COMPLETE PromQL vocabulary of the pinned    *)
(* parser (module Vocab is generated at check time by `vreplay vocab`:     *)
(* every function with its argument types, every aggregation operator,     *)
(* every binary / set operator) plus subqueries, string literals, range    *)
(* vectors, @ / offset / parentheses / unary minus, each in every          *)
(* type-correct syntactic position, for instant and range windows.         *)
(* Queries are emitted as text.                                            *)
(***************************************************************************)
EXTENDS ScnLib, Vocab

CONSTANTS Tier, Seed, Mod, TickMs
Q == Tier = "quick"

RECURSIVE JoinArgs(_)
JoinArgs(a) == IF Len(a) = 0 THEN "" ELSE IF Len(a) = 1 THEN a[1] ELSE a[1] \o ", " \o JoinArgs(Tail(a))
\* (the vector and range arguments of functions are taken from the metric v, whose samples run through NaN, negative
\* numbers, zero and both infinities: a function is answered for those values too, on whichever path)
ArgText(t) == CASE t = "vector" -> "v" [] t = "matrix" -> "v[2s]" [] t = "scalar" -> "2" [] t = "string" -> "\"x\"" [] OTHER -> "v"

\* constructs: [text, type]
FnC(f) == [text |-> f.name \o "(" \o JoinArgs([i \in 1..Len(f.args) |-> ArgText(f.args[i])]) \o ")", type |-> f.ret]
AggC(a) == [text |-> CASE a \in {"topk", "bottomk", "quantile"} -> a \o "(2, m)"
                       [] a = "count_values" -> a \o "(\"v\", m)"
                       [] OTHER -> a \o " by (a) (m)", type |-> "vector"]
BinC(o) == [text |-> "m " \o o \o " n", type |-> "vector"]
Others == << [text |-> "m " \o "+ on (a) n", type |-> "vector"], [text |-> "m + ignoring (b) group_left n", type |-> "vector"],
             [text |-> "m > bool n", type |-> "vector"], [text |-> "m and on (a) n", type |-> "vector"],
             [text |-> "m[4s:2s]", type |-> "matrix"], [text |-> "max_over_time(m[4s:2s])", type |-> "vector"],
             \* a subquery without a step (the engine's default evaluation interval)
             [text |-> "m[4s:]", type |-> "matrix"], [text |-> "sum_over_time(m[6s:] offset 1s)", type |-> "vector"],
             [text |-> "sum_over_time(rate(m[2s])[4s:1s])", type |-> "vector"],
             [text |-> "\"str\"", type |-> "string"], [text |-> "m[2s]", type |-> "matrix"], [text |-> "m", type |-> "vector"],
             [text |-> "m @ 2", type |-> "vector"], [text |-> "m offset 1s", type |-> "vector"], [text |-> "m[2s] offset 1s", type |-> "matrix"],
             [text |-> "m @ start()", type |-> "vector"], [text |-> "m[4s:2s] offset 1s", type |-> "matrix"], [text |-> "m[4s:2s] @ 3", type |-> "matrix"],
             [text |-> "3", type |-> "scalar"], [text |-> "2 + 3", type |-> "scalar"], [text |-> "2 > bool 1", type |-> "scalar"],
             [text |-> "{__name__=~\"m|n\"}", type |-> "vector"], [text |-> "m{a=\"x\"} or n", type |-> "vector"],
             \* a vector operand that selects no series
             [text |-> "m or vector(time())", type |-> "vector"], [text |-> "vector(time()) unless on () m", type |-> "vector"],
             [text |-> "m + on () group_left () vector(time())", type |-> "vector"], [text |-> "vector(time())", type |-> "vector"] >>
BinOps == SelectSeq(Operators, LAMBDA o : o \notin {"=~", "!~"})
Constructs == [i \in 1..Len(Functions) |-> FnC(Functions[i])] \o [i \in 1..Len(Aggregators) |-> AggC(Aggregators[i])]
              \o [i \in 1..Len(BinOps) |-> BinC(BinOps[i])] \o Others

\* every argument position of every function the planner builds on a code path of its own is a position
Positions == <<"top", "fnarg", "aggop", "aggparam", "binl", "binr", "paren", "neg", "nested", "kparam", "clamparg", "subq", "pinned", "histo",
               "histoq", "tsarg", "scalararg", "clamp3", "clampfirst", "clampmid", "kop", "quantop">>
\* text of construct c in position p, "" if the position does not accept the construct's type
InPos(c, p) ==
  CASE p = "top" -> c.text
    [] p = "fnarg" -> (CASE c.type = "vector" -> "abs(" \o c.text \o ")" [] c.type = "matrix" -> "max_over_time(" \o c.text \o ")"
                         [] c.type = "scalar" -> "vector(" \o c.text \o ")" [] OTHER -> "")
    [] p = "aggop" -> IF c.type = "vector" THEN "sum by (a) (" \o c.text \o ")" ELSE ""
    [] p = "aggparam" -> IF c.type = "scalar" THEN "topk(" \o c.text \o ", m)" ELSE IF c.type = "vector" THEN "quantile(scalar(" \o c.text \o "), m)" ELSE ""
    [] p = "binl" -> IF c.type \in {"vector", "scalar"} THEN "(" \o c.text \o ") + m" ELSE ""
    [] p = "binr" -> IF c.type \in {"vector", "scalar"} THEN "m * (" \o c.text \o ")" ELSE ""
    [] p = "paren" -> "(" \o c.text \o ")"
    [] p = "neg" -> IF c.type \in {"vector", "scalar"} THEN "-(" \o c.text \o ")" ELSE ""
    [] p = "nested" -> IF c.type = "vector" THEN "max by (a) (abs(" \o c.text \o ") > 1)" ELSE ""
    [] p = "kparam" -> IF c.type = "vector" THEN "bottomk by (a) (scalar(" \o c.text \o "), m)" ELSE ""
    [] p = "clamparg" -> IF c.type = "vector" THEN "clamp_min(m, scalar(" \o c.text \o "))" ELSE IF c.type = "scalar" THEN "clamp_max(m, " \o c.text \o ")" ELSE ""
    [] p = "subq" -> IF c.type = "vector" THEN "max_over_time((" \o c.text \o ")[4s:2s])" ELSE ""
    [] p = "pinned" -> IF c.type = "vector" THEN "(" \o c.text \o ") + on (a) group_left (m @ 3)" ELSE ""
    [] p = "histoq" -> IF c.type = "vector" THEN "histogram_quantile(scalar(" \o c.text \o "), m)" ELSE IF c.type = "scalar" THEN "histogram_quantile(" \o c.text \o ", m)" ELSE ""
    [] p = "tsarg" -> IF c.type = "vector" THEN "timestamp(" \o c.text \o ")" ELSE ""
    [] p = "scalararg" -> IF c.type = "vector" THEN "scalar(" \o c.text \o ") + m" ELSE ""
    [] p = "clamp3" -> IF c.type = "vector" THEN "clamp(" \o c.text \o ", 1, scalar(" \o c.text \o "))" ELSE ""
    \* the construct in an argument that is not the last one of a function with several arguments
    [] p = "clampfirst" -> IF c.type = "vector" THEN "clamp_min(" \o c.text \o ", 4)" ELSE ""
    [] p = "clampmid" -> IF c.type = "vector" THEN "clamp(m, scalar(" \o c.text \o "), 7)" ELSE IF c.type = "scalar" THEN "clamp(m, " \o c.text \o ", 7)" ELSE ""
    \* the construct as the operand of an aggregation that takes a parameter
    \* (k exceeds the number of series: which of several NaN members a smaller k keeps is a tie)
    [] p = "kop" -> IF c.type = "vector" THEN "topk(9, " \o c.text \o ")" ELSE ""
    [] p = "quantop" -> IF c.type = "vector" THEN "quantile by (a) (0.5, " \o c.text \o ")" ELSE ""
    [] p = "histo" -> IF c.type = "vector" THEN "histogram_quantile(0.5, " \o c.text \o ")" ELSE ""

Data == << Series(<< <<"__name__","m">>, <<"a","x">>, <<"b","1">>, <<"le","1">> >>, [i \in 1..12 |-> Smp(i - 1, "f", i)]),
           Series(<< <<"__name__","m">>, <<"a","x">>, <<"b","2">>, <<"le","+Inf">> >>, [i \in 1..12 |-> Smp(i - 1, "f", 3 * i)]),
           Series(<< <<"__name__","m">>, <<"a","y">>, <<"b","1">>, <<"le","1">> >>, [i \in 1..6 |-> Smp(2 * i - 1, "f", 20 - i)]),
           Series(<< <<"__name__","n">>, <<"a","x">>, <<"b","1">>, <<"le","1">> >>, [i \in 1..12 |-> Smp(i - 1, "f", 2)]),
           Series(<< <<"__name__","n">>, <<"a","y">>, <<"b","1">>, <<"le","1">> >>, [i \in 1..12 |-> Smp(i - 1, "f", 5)]),
           Series(<< <<"__name__","v">>, <<"a","x">>, <<"b","1">>, <<"le","1">> >>,
                  [i \in 1..12 |-> Smp(i - 1, CASE i % 5 = 0 -> "nan" [] i % 5 = 3 -> "pinf" [] OTHER -> "f", CASE i % 5 = 1 -> -2 [] i % 5 = 2 -> 0 [] OTHER -> 7)]),
           Series(<< <<"__name__","v">>, <<"a","x">>, <<"b","2">>, <<"le","+Inf">> >>, [i \in 1..12 |-> Smp(i - 1, IF i % 4 = 0 THEN "ninf" ELSE "f", i)]),
           Series(<< <<"__name__","v">>, <<"a","y">>, <<"b","1">>, <<"le","1">> >>, [i \in 1..6 |-> Smp(2 * i - 1, "f", 30 - i)]) >>

VARIABLE g
\* windows: instant, 5-step range, and a range query of a single step (start = end: still a matrix)
Init == g \in [c : 1..Len(Constructs), p : 1..Len(Positions), win : {"instant", "range", "one"}]
Next == UNCHANGED g
TextOf(x) == InPos(Constructs[x.c], Positions[x.p])
ScnOf(x) == Scn("fb", "C08", TickMs, Data, <<>>, 4, IF x.win = "range" THEN 8 ELSE 4, IF x.win = "instant" THEN 0 ELSE 1, 2, 0)
            @@ [q |-> TextOf(x), cfg |-> [part |-> IF Constructs[x.c].type \in {"vector", "scalar"} THEN Constructs[x.c].text ELSE ""]]
EmitFb == IF TextOf(g) # "" /\ (g.c * 7 + g.p * 3 + (IF g.win = "instant" THEN 0 ELSE IF g.win = "range" THEN 1 ELSE 2)) % Mod = Seed % Mod THEN Emit(ScnOf(g)) ELSE TRUE
=============================================================================
