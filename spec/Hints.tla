-------------------------------- MODULE Hints --------------------------------
(***************************************************************************)
(* Storage select hints (C16).  Two derivations over one plan encoding:    *)
(*   RefHints  the reference engine's: per selector, from the PATH of its  *)
(*             ancestors (extractFuncFromPath stops at a binary            *)
(*             expression; grouping only when the IMMEDIATE parent is an   *)
(*             aggregation; getTimeRangesForSelector)                      *)
(*   EngHints  the engine's: hints propagated TOP-DOWN through newOperator *)
(*             (a call sets Func and clears the grouping; an aggregation   *)
(*             sets Func, Grouping, By; a binary expression clears all     *)
(*             three; parentheses and unary minus clear the grouping)      *)
(* Checked for every plan of the generator alphabet: the two tuples are    *)
(* equal for every selector (HintsEqual) and the hinted time range covers  *)
(* every sample the selector can need on the window's grid                 *)
(* (HintsSufficient).  The same module emits the plans as scenarios.       *)
(***************************************************************************)
EXTENDS ScnLib, PromQLRef

CONSTANTS Tier, Seed, Mod, TickMs
Q == Tier = "quick"

\* ---- parents
Parent(pl, i) == IF \E j \in 1..Len(pl) : \E k \in 1..Len(pl[j].args) : pl[j].args[k] = i
                 THEN CHOOSE j \in 1..Len(pl) : \E k \in 1..Len(pl[j].args) : pl[j].args[k] = i ELSE 0

\* ---- reference: path based
RECURSIVE RefFunc(_, _)
RefFunc(pl, i) == \* nearest enclosing function/aggregation above node i, "" across a binary expression
  LET p == Parent(pl, i) IN
  IF p = 0 THEN ""
  ELSE CASE pl[p].op = "agg" -> pl[p].fn
         [] pl[p].op = "fn"  -> pl[p].fn
         [] pl[p].op = "bin" -> ""
         [] OTHER -> RefFunc(pl, p)
RefGroup(pl, i) == LET p == Parent(pl, i) IN
                   IF p # 0 /\ pl[p].op = "agg" THEN [by |-> pl[p].by, grp |-> pl[p].grp] ELSE [by |-> FALSE, grp |-> <<>>]

\* ---- engine: top-down
Hint0 == [func |-> "", by |-> FALSE, grp |-> <<>>]
RECURSIVE Down(_, _, _, _)
\* the hints with which node `target` is reached when node i is built with hints h (Hint0 if not below i)
Down(pl, i, h, target) ==
  IF i = target THEN {h}
  ELSE LET n == pl[i]
           hh == CASE n.op = "fn"  -> [func |-> n.fn, by |-> FALSE, grp |-> <<>>]
                   [] n.op = "agg" -> [func |-> n.fn, by |-> n.by, grp |-> n.grp]
                   [] n.op = "bin" -> Hint0
                   [] n.op \in {"paren", "neg"} -> [h EXCEPT !.by = FALSE, !.grp = <<>>]
                   [] OTHER -> h
       IN UNION {Down(pl, n.args[k], hh, target) : k \in 1..Len(n.args)}

Selectors(pl) == {i \in 1..Len(pl) : pl[i].op \in {"sel", "rfn"}}

RefTuple(sc, i) == LET pl == sc.plan n == pl[i] IN
  IF n.op = "rfn" THEN [func |-> n.fn, by |-> FALSE, grp |-> <<>>]
  ELSE LET g == RefGroup(pl, i) IN [func |-> RefFunc(pl, i), by |-> g.by, grp |-> g.grp]
EngTuple(sc, i) == LET pl == sc.plan n == pl[i] IN
  IF n.op = "rfn" THEN [func |-> n.fn, by |-> FALSE, grp |-> <<>>]
  ELSE CHOOSE h \in Down(pl, Len(pl), Hint0, i) : TRUE

\* ---- time ranges (ticks)
Base(sc, n, which) == IF n.atk = "lit" THEN n.at ELSE IF n.atk = "start" THEN sc.start ELSE IF n.atk = "end" THEN sc.end
                      ELSE IF which = "s" THEN sc.start ELSE sc.end
HintStart(sc, n) == Base(sc, n, "s") - (IF n.op = "rfn" THEN n.rng ELSE Lookback(sc)) - n.off
HintEnd(sc, n)   == Base(sc, n, "e") - n.off
\* samples a selector can need: for every grid step, [ref - (range | lookback), ref]
Needed(sc, n) == LET g == Grid(sc) IN
                 UNION {(RefTime(sc, n, g[x]) - (IF n.op = "rfn" THEN n.rng ELSE Lookback(sc)))..RefTime(sc, n, g[x]) : x \in 1..Len(g)}

\* ---- plans
\* mre / ratere: selectors with every matcher type, among them a regular expression that matches everything and one that
\* matches the empty value (matchers that do not narrow the selection are still the select's matchers)
\* nope: a selector that matches no series (the selects of the rest of the query are issued all the same)
Leaves == IF Q THEN {"m", "moff", "mpin", "rate", "sotoff", "mre", "ratere", "nope"} ELSE {"m", "moff", "mneg", "mpin", "mstart", "mend", "rate", "sotoff", "ratepin", "mre", "ratere", "nope"}
AllKinds == <<Metric("m"), Re("a", ".*", <<"", "x", "y">>), Neq("b", ""), NRe("c", ".+", <<>>), Re("b", ".+", <<"1">>)>>
\* histq, ts, clamp: functions the engine builds on code paths of their own
\* selfnarrow: the plan minus a second selector of the same series over a narrower time range (same matchers, same
\* enclosing function and grouping: the two selects must stay two selects)
\* wo3, by5, topkwo3: grouping lists of three and five labels, given out of order
Wraps  == {"id", "abs", "sumby", "sumwo", "neg", "paren", "binl", "binr", "topk", "scal", "histq", "ts", "clamp", "selfnarrow", "wo3", "by5", "topkwo3", "pos", "quantp"}
LeafPlan(l) ==
  CASE l = "m"      -> <<Sel(<<Metric("m")>>)>>
    [] l = "moff"   -> <<SelOff(<<Metric("m")>>, 2)>>
    [] l = "mneg"   -> <<SelOff(<<Metric("m")>>, -1)>>
    [] l = "mpin"   -> <<SelAt(<<Metric("m")>>, 1, "lit", 4)>>
    [] l = "mstart" -> <<SelAt(<<Metric("m")>>, 0, "start", 0)>>
    [] l = "mend"   -> <<SelAt(<<Metric("m")>>, 2, "end", 0)>>
    [] l = "rate"   -> <<RFn("rate", <<Metric("m")>>, 3, 0, "none", 0)>>
    [] l = "sotoff" -> <<RFn("sum_over_time", <<Metric("m")>>, 2, 1, "none", 0)>>
    [] l = "ratepin" -> <<RFn("rate", <<Metric("m")>>, 3, 1, "lit", 6)>>
    [] l = "nope"    -> <<Sel(<<Metric("nope")>>)>>
    [] l = "mre"     -> <<Sel(AllKinds)>>
    [] l = "ratere"  -> <<RFn("rate", AllKinds, 3, 0, "none", 0)>>
Wrap(w, p) ==
  CASE w = "id"    -> p
    [] w = "abs"   -> Over(p, LAMBDA c : Fn("abs", <<c>>))
    [] w = "sumby" -> Over(p, LAMBDA c : Agg("sum", TRUE, <<"a">>, <<c>>))
    [] w = "sumwo" -> Over(p, LAMBDA c : Agg("max", FALSE, <<"b">>, <<c>>))
    [] w = "wo3"   -> Over(p, LAMBDA c : Agg("min", FALSE, <<"z", "b", "c">>, <<c>>))
    [] w = "by5"   -> Over(p, LAMBDA c : Agg("sum", TRUE, <<"z", "a", "q", "b", "c">>, <<c>>))
    [] w = "topkwo3" -> Join(<<Num(1)>>, p, LAMBDA a, b : Agg("bottomk", FALSE, <<"z", "c", "b">>, <<a, b>>))
    [] w = "pos"   -> Over(p, LAMBDA c : Pos(c))
    [] w = "neg"   -> Over(p, LAMBDA c : NegN(c))
    [] w = "paren" -> Over(p, LAMBDA c : Paren(c))
    [] w = "binl"  -> Join(p, <<Sel(<<Metric("n")>>)>>, LAMBDA a, b : BinM("+", a, b, FALSE, "1:1", TRUE, <<"a">>, <<>>))
    [] w = "binr"  -> Join(<<Num(2)>>, p, LAMBDA a, b : Bin("*", a, b))
    [] w = "topk"  -> Join(<<Sel(<<Metric("p")>>), Fn("scalar", <<1>>)>>, p, LAMBDA a, b : Agg("topk", TRUE, <<"a">>, <<a, b>>))
    [] w = "quantp" -> Join(<<Sel(<<Metric("p")>>), Fn("scalar", <<1>>)>>, p, LAMBDA a, b : Agg("quantile", TRUE, <<"a">>, <<a, b>>))
    [] w = "histq" -> Join(<<NumS("0.9")>>, p, LAMBDA a, b : Fn("histogram_quantile", <<a, b>>))
    [] w = "ts"    -> Over(p, LAMBDA c : Fn("timestamp", <<c>>))
    [] w = "clamp" -> p \o <<Num(1), Num(9), Fn("clamp", <<Len(p), Len(p) + 1, Len(p) + 2>>)>>
    [] w = "selfnarrow" -> LET leaf == p[1]
                               narrow == IF leaf.op = "rfn" THEN [leaf EXCEPT !.rng = 1] ELSE [leaf EXCEPT !.atk = "lit", !.at = 8, !.off = 0]
                           IN Join(p, <<narrow>>, LAMBDA a, b : BinM("-", a, b, FALSE, "1:1", FALSE, <<>>, <<>>))
    [] w = "scal"  -> Join(p, Over(<<Sel(<<Metric("p")>>)>>, LAMBDA c : Fn("scalar", <<c>>)), LAMBDA a, b : Fn("clamp_min", <<a, b>>))

VARIABLE g
Init == g \in [l : Leaves, w1 : Wraps, w2 : Wraps, w3 : Wraps, win : {"instant", "range"}, lb : {1, 3}, qlb : {0, 2}]
Next == UNCHANGED g

Data == << Series(<< <<"__name__","m">>, <<"a","x">>, <<"b","1">> >>, [i \in 1..16 |-> Smp(i - 1, "f", i)]),
           Series(<< <<"__name__","m">>, <<"a","y">>, <<"b","1">> >>, [i \in 1..8 |-> Smp(2 * i - 1, "f", 3 * i)]),
           Series(<< <<"__name__","n">>, <<"a","x">> >>, [i \in 1..16 |-> Smp(i - 1, "f", 2)]),
           Series(<< <<"__name__","p">> >>, [i \in 1..16 |-> Smp(i - 1, "f", (i % 2) + 1)]) >>
PlanOf(x) == Wrap(x.w3, Wrap(x.w2, Wrap(x.w1, LeafPlan(x.l))))
ScnOf(x) == Scn("hint", "C16", TickMs, Data, PlanOf(x), 6, IF x.win = "instant" THEN 6 ELSE 13, IF x.win = "instant" THEN 0 ELSE 1, x.lb, x.qlb)

HintsEqual == LET sc == ScnOf(g) IN \A i \in Selectors(sc.plan) : EngTuple(sc, i) = RefTuple(sc, i)
HintsSufficient == LET sc == ScnOf(g) IN
                   \A i \in Selectors(sc.plan) : \A t \in Needed(sc, sc.plan[i]) : t >= HintStart(sc, sc.plan[i]) /\ t <= HintEnd(sc, sc.plan[i])

Code(s, S) == CHOOSE i \in 1..Cardinality(S) : SetToSortSeq(S, LAMBDA a, b : TRUE)[i] = s
Hash(x) == Code(x.l, Leaves) * 7 + Code(x.w1, Wraps) * 11 + Code(x.w2, Wraps) * 13 + Code(x.w3, Wraps) * 17 + x.lb * 19 + x.qlb * 23
           + (IF x.win = "instant" THEN 1 ELSE 2)
EmitHint == IF Pick(Hash(g), 0, Mod) = Seed % Mod THEN Emit(ScnOf(g)) ELSE TRUE
=============================================================================
