----------------------------- MODULE DebugEval ------------------------------
(* Development aid: prints PromQLRef's per-step results for the first scenario header of a trace file. *)
EXTENDS PromQLRef, Json
CONSTANT TraceFile
Trace == ndJsonDeserialize(TraceFile)
VARIABLE x
Init == x = 0
Next == UNCHANGED x
Hdr == Trace[CHOOSE i \in 1..Len(Trace) : Trace[i].ev = "sc"]
Show == LET gr == GridRes(Hdr) g == Grid(Hdr) IN
        \A i \in 1..Len(g) : PrintT(<<"t", g[i], "why", gr[i].why, "unk", gr[i].unk, "vec", gr[i].vec>>)
=============================================================================
