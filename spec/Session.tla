------------------------------- MODULE Session -------------------------------
(***************************************************************************)
(* Histories of engine use (C20): one long-lived engine, one storage whose *)
(* contents grow, queries executed, failing, cancelled, falling back,      *)
(* closed, in any order.  The specification's claim about such a history   *)
(* is SessionTrace.tla's: every result is a function of (query, window,    *)
(* current data) - equal to what a freshly constructed engine returns -    *)
(* and a result that has been returned never changes.                      *)
(*                                                                         *)
(* This module is the generator of histories: TLC explores (BFS in the     *)
(* quick tier for short histories, -simulate for long ones) the machine    *)
(* whose actions are the operations a client can perform, and prints every *)
(* finished history as one scenario.                                       *)
(***************************************************************************)
EXTENDS ScnLib

CONSTANTS Tier, Seed, Mod, TickMs, MaxOps,
          SubSize     \* 0: a history draws its queries from the whole basket; 3: from three of them, chosen per history
                      \* (what one query leaves behind then meets the same few queries again and again)

Queries == << "sum by (a) (m)", "m", "rate(m[3s])", "topk(1, m)", "m + on (a) group_left () n", "abs(m{a=\"x\"}) + m", "scalar(n{a=\"x\"})",
              "m + on (a) n", "absent(nope)", "max_over_time(m[4s:2s])", "m @ 3", "sum(m) / count(m)", "time()", "quantile by (a) (0.5, m)",
              \* range functions over ranges of different lengths (what one query buffers must not serve the next)
              "sum_over_time(m[2s])", "sum_over_time(m[9s])", "sum by (a) (count_over_time(m[5s]))", "last_over_time(m[1s])",
              \* selectors pinned to the start / end of the window they are asked for (the same text means something else in every window)
              "m @ end()", "sum(m @ start())", "sum_over_time(m[3s] @ end())", "m - m @ start()",
              \* name-dropping operators over a metric that hands over to another one (ho ends before ho2 begins): over a range
              \* the two are one series of the result, and what the engine did to find that out must not be seen by the next query
              "abs({__name__=~\"ho|ho2\"})", "-{__name__=~\"ho|ho2|m\"}", "abs({a=~\"h|x\"})",
              \* a metric that does not exist at first and comes into being with the first append of kind "late"
              "late", "sum by (a) (late)", "m + on (a) group_left () late" >>
\* kinds: ok = plain execution; cancel = executed with a context cancelled beforehand or midway; (failing / fallback
\* queries are in the basket: index 8 fails with many-to-many, 9 and 10 take the fallback path)
ExecKinds == {"ok", "ok", "cancel-before", "cancel-mid"}
\* qlb: per-query lookback delta (promql.QueryOpts), 0 = none given: a query's options must not outlive the query
Windows == << [start |-> 2, end |-> 2, step |-> 0, qlb |-> 0], [start |-> 1, end |-> 13, step |-> 1, qlb |-> 0], [start |-> 3, end |-> 25, step |-> 2, qlb |-> 0],
              [start |-> 2, end |-> 14, step |-> 1, qlb |-> 1], [start |-> 4, end |-> 4, step |-> 0, qlb |-> 9] >>
AppendKinds == {"sample", "series", "stale", "gap", "late"}

VARIABLES hist, results, basket
vars == <<hist, results, basket>>
NQ == Len(Queries)
Init == /\ hist = <<>> /\ results = 0
        /\ basket \in IF SubSize = 0 THEN {1..NQ} ELSE {{a, b, c} : a \in 1..NQ, b \in 1..NQ, c \in 1..NQ}

Exec == /\ Len(hist) < MaxOps
        /\ \E q \in basket, w \in 1..Len(Windows), k \in ExecKinds :
             hist' = Append(hist, [op |-> "exec", q |-> q, w |-> w, kind |-> k, a |-> ""])
        /\ results' = results + 1 /\ UNCHANGED basket
AppendOp == /\ Len(hist) < MaxOps
            /\ \E k \in AppendKinds : hist' = Append(hist, [op |-> "append", q |-> 0, w |-> 0, kind |-> k, a |-> ""])
            /\ UNCHANGED <<results, basket>>
CloseOp == /\ Len(hist) < MaxOps /\ results > 0
           /\ \E r \in 1..results : hist' = Append(hist, [op |-> "close", q |-> r, w |-> 0, kind |-> "", a |-> ""])
           /\ UNCHANGED <<results, basket>>
Next == Exec \/ AppendOp \/ CloseOp
Spec == Init /\ [][Next]_vars

Data == << Series(<< <<"__name__","m">>, <<"a","x">>, <<"b","1">> >>, [i \in 1..8 |-> Smp(i - 1, "f", i)]),
           Series(<< <<"__name__","m">>, <<"a","x">>, <<"b","2">> >>, [i \in 1..8 |-> Smp(i - 1, "f", 10 + i)]),
           Series(<< <<"__name__","m">>, <<"a","y">> >>, [i \in 1..4 |-> Smp(2 * i - 1, "f", 100 - i)]),
           Series(<< <<"__name__","n">>, <<"a","x">> >>, [i \in 1..8 |-> Smp(i - 1, "f", 2)]),
           Series(<< <<"__name__","n">>, <<"a","y">> >>, [i \in 1..8 |-> Smp(i - 1, "f", 4)]),
           Series(<< <<"__name__","ho">>, <<"a","h">> >>, [i \in 1..2 |-> Smp(i - 1, "f", 50 + i)]),
           Series(<< <<"__name__","ho2">>, <<"a","h">> >>, [i \in 1..3 |-> Smp(i + 4, "f", 60 + i)]) >>

\* the long-lived engine of a history: a plain engine, or a distributed engine over two long-lived remote
\* (local) engines that hold the series of even and of odd index of the growing storage
EngineOf(h) == IF Cardinality({i \in 1..Len(h) : h[i].op = "exec"}) % 2 = 0 THEN "plain" ELSE "dist"
ScnOf(h) == Scn("hist", "C20", TickMs, Data, <<>>, 0, 0, 0, 3, 0)
            @@ [q |-> "history", cfg |-> [hist |-> h, queries |-> Queries, windows |-> Windows, engine |-> EngineOf(h)]]
\* a finished history contains at least one append between two executions of the same query and window
NonTrivial(h) == \E i, j, k \in 1..Len(h) : i < j /\ j < k /\ h[i].op = "exec" /\ h[k].op = "exec" /\ h[j].op = "append"
                     /\ h[i].q = h[k].q /\ h[i].w = h[k].w
EmitHist == IF Len(hist) = MaxOps THEN Emit(ScnOf(hist)) ELSE TRUE
=============================================================================
