INIT Init
NEXT Next
CONSTANTS
 Tier = "quick"
 Seed = 1
 Mod = 1
 TickMs = 1000
INVARIANTS SelectionLaw EmitSel
CHECK_DEADLOCK FALSE
