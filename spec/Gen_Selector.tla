---------------------------- MODULE Gen_Selector ----------------------------
(***************************************************************************)
(* C02 scenario generator: instant-vector selection.  One observed series  *)
(* (plus a decoy on another metric) on the timeline 0..MaxT; every layout  *)
(* with at most MaxSamples samples, each a float (value 100+t identifies   *)
(* WHICH sample was selected) or a staleness marker; x engine lookback x   *)
(* per-query lookback x offset x @ pin x step x window.                    *)
(*                                                                         *)
(* The model-level invariant SelectionLaw is evaluated on EVERY enumerated *)
(* scenario (the denotation picks the newest sample in [ref-lb, ref] and   *)
(* nothing behind a marker); a scenario is EMITTED for replay when it is   *)
(* a boundary case (Interesting) or falls in the seeded residue class.     *)
(***************************************************************************)
EXTENDS ScnLib, PromQLRef

CONSTANTS Tier, Seed, Mod, TickMs

\* scope per tier (cfg files cannot hold negative numbers or tuples)
Q == Tier = "quick"
MaxT       == IF Q THEN 6 ELSE 7
MaxSamples == 3
Lookbacks  == IF Q THEN {2, 3} ELSE {1, 2, 3}
QLookbacks == IF Q THEN {0, 1} ELSE {0, 4}
\* 3: an offset that exceeds the smallest lookback by two ticks - a sample can be too new for one step (after the
\* shifted time) and yet be the one a later step selects, with no sample at or after the step itself
Offsets    == IF Q THEN {-1, 0, 3} ELSE {-2, -1, 0, 3}
Steps      == IF Q THEN {0, 1, 2} ELSE {0, 1, 2, 3}
Starts     == IF Q THEN {1, 4} ELSE {0, 1, 4}
\* with a tick of 500 ms the samples lie two ticks apart (Stretch) and the window has 23 steps of one tick: the step is
\* finer than the sample spacing and the window crosses the engine's batches of 10 steps inside the data
Stretch    == IF TickMs = 500 THEN 2 ELSE 1
NSteps     == IF TickMs = 500 THEN {23} ELSE IF Q THEN {4} ELSE {1, 4}
AtP(k, v)  == [k |-> k, v |-> v]
Ats        == IF Q THEN {AtP("none", 0), AtP("start", 0), AtP("end", 0), AtP("lit", 3)}
                   ELSE {AtP("none", 0), AtP("start", 0), AtP("end", 0), AtP("lit", 0), AtP("lit", 3)}
\* "merged": the selector next to a broader selector of the same metric, so that MergeSelects rewrites it
\* "ts": the selector as the argument of timestamp() (the selector then hands out the time of the sample it selects)
Contexts   == IF Q THEN {"bare", "sumby", "merged", "ts"} ELSE {"bare", "sumby", "mul1", "merged", "ts"}

Kinds == {"-", "f", "s"}
Layouts == {lay \in [0..MaxT -> Kinds] : Cardinality({u \in 0..MaxT : lay[u] # "-"}) <= MaxSamples}

VARIABLE g
\* rag: the window ends after its last step (end - start is not a multiple of the step; only for steps of 2 ticks or more)
Init == g \in [rag : {0, 1}, lay : Layouts, lb : Lookbacks, qlb : QLookbacks, off : Offsets, step : Steps,
               start : Starts, n : NSteps, at : Ats, ctx : Contexts]
Next == UNCHANGED g

SmpOf(lay) == LET ts == SetToSortSeq({u \in 0..MaxT : lay[u] # "-"}, LAMBDA a, b : a < b)
              IN [i \in 1..Len(ts) |-> Smp(ts[i] * Stretch, IF lay[ts[i]] = "f" THEN "f" ELSE "s", 100 + ts[i])]

\* m{a="w"} comes first in the storage and has one early sample: for later windows a storage that hands out only the
\* querier's time range returns it without any sample (the series after it must not be disturbed by that)
Data(x) == << Series(<< <<"__name__", "m">>, <<"a", "w">> >>, <<Smp(0, "f", 5)>>),
              Series(<< <<"__name__", "m">>, <<"a", "x">> >>, SmpOf(x.lay)),
              Series(<< <<"__name__", "m">>, <<"a", "z">> >>, [u \in 1..(MaxT * Stretch + 1) |-> Smp(u - 1, "f", 5)]),
              Series(<< <<"__name__", "decoy">>, <<"a", "x">> >>, <<Smp(0, "f", 7), Smp(MaxT * Stretch, "f", 8)>>) >>

AtK(x) == x.at.k
AtV(x) == x.at.v

SelNodeOf(x) == SelAt(<<Metric("m")>>, x.off, AtK(x), AtV(x))
\* identity-like contexts around the selector
PlanOf(x) == CASE x.ctx = "bare"  -> <<SelNodeOf(x)>>
               [] x.ctx = "paren" -> <<SelNodeOf(x), Paren(1)>>
               [] x.ctx = "sumby" -> <<SelNodeOf(x), Agg("sum", FALSE, <<>>, <<1>>)>>
               [] x.ctx = "ts"    -> <<SelNodeOf(x), Fn("timestamp", <<1>>)>>
               [] x.ctx = "mul1"  -> <<SelNodeOf(x), Num(1), Bin("*", 1, 2)>>
               [] x.ctx = "merged" -> <<SelAt(<<Metric("m"), Eq("a", "x")>>, x.off, AtK(x), AtV(x)), Agg("sum", TRUE, <<>>, <<1>>),
                                        Sel(<<Metric("m")>>), Agg("count", TRUE, <<>>, <<3>>), Bin("*", 2, 4)>>

EndOf(x) == IF x.step = 0 THEN x.start ELSE x.start + (x.n - 1) * x.step + (IF x.step >= 2 THEN x.rag ELSE 0)

ScnOf(x) == Scn("sel", "C02", TickMs, Data(x), PlanOf(x), x.start, EndOf(x), x.step, x.lb, x.qlb)

\* ---- model-level law (checked on every scenario): what the denotation selects
Lb(x) == IF x.qlb > 0 THEN x.qlb ELSE x.lb
Ref(x, t) == IF AtK(x) = "lit" THEN AtV(x) - x.off ELSE IF AtK(x) = "start" THEN x.start - x.off
             ELSE IF AtK(x) = "end" THEN EndOf(x) - x.off ELSE t - x.off
Chosen(x, t) == LET c == {u \in 0..MaxT : x.lay[u] # "-" /\ u * Stretch <= Ref(x, t) /\ u * Stretch >= Ref(x, t) - Lb(x)}
                IN IF c = {} THEN -1 ELSE IF x.lay[Max(c)] = "s" THEN -1 ELSE Max(c)
GridOf(x) == Grid(ScnOf(x))
SelectionLaw ==
  LET sc == ScnOf(g)  gr == Grid(sc) IN
  \A i \in 1..Len(gr) :
     LET r == Eval(sc, 1, gr[i])  c == Chosen(g, gr[i])
         vx == SelectSeq(r.vec, LAMBDA e : e.val # I(5))      \* the entries of m{a="x"} (values 100 + tick)
     IN
     /\ r.why = {} /\ ~r.unk
     /\ IF c = -1 THEN Len(vx) = 0 ELSE Len(vx) = 1 /\ vx[1].val = I(100 + c)

\* ---- emission filter
\* boundary: some step whose candidate window edge is exactly hit (age = lookback), just missed
\* (age = lookback + 1), or hides a sample behind a marker; or a sample exactly on the step
LayAt(x, tick) == IF tick % Stretch = 0 /\ (tick \div Stretch) \in 0..MaxT THEN x.lay[tick \div Stretch] ELSE "-"
Interesting(x) ==
  \E i \in 1..Len(GridOf(x)) : LET r == Ref(x, GridOf(x)[i]) IN
     \/ LayAt(x, r - Lb(x)) # "-"
     \/ LayAt(x, r - Lb(x) - 1) # "-"
     \/ (\E u \in 0..MaxT : x.lay[u] = "s" /\ u * Stretch <= r /\ u * Stretch >= r - Lb(x))
Hash(x) == (x.rag * 41 + x.lb * 7 + x.qlb * 13 + (x.off + 5) * 17 + x.step * 19 + x.start * 23 + x.n * 29
            + Cardinality({u \in 0..MaxT : x.lay[u] = "f"}) * 31
            + FoldSet(LAMBDA u, acc : acc + (IF x.lay[u] = "-" THEN 0 ELSE IF x.lay[u] = "f" THEN u + 1 ELSE 3 * (u + 1)), 0, 0..MaxT) * 37)
\* (timestamp() over a selector that has both an @ pin and an offset is left to C06: the pinned reference ignores the
\*  offset there - a quirk of its own that contradicts the rule this property states, see KNOWN_FINDINGS)
EmitSel == IF ((g.ctx # "ts" \/ AtK(g) = "none" \/ g.off = 0) /\ (g.rag = 0 \/ g.step >= 2) /\ Interesting(g) /\ Pick(Hash(g), 0, Mod) = Seed % Mod) THEN Emit(ScnOf(g)) ELSE TRUE
=============================================================================
