------------------------------ MODULE Gen_Conc -------------------------------
(***************************************************************************)
(* C12 scenarios: K clients executing queries concurrently on ONE engine   *)
(* and ONE storage.  TLC enumerates the mixes: number of clients, which    *)
(* query each client runs (all the same text / round-robin over a basket / *)
(* native and fallback mixed / through a distributed engine sharing the    *)
(* remote engines), instant or range, rounds per client, and whether the   *)
(* clients start together or staggered.                                    *)
(***************************************************************************)
EXTENDS ScnLib
CONSTANTS Tier, Seed, Mod, TickMs
Q == Tier = "quick"
Ks == IF Q THEN {2, 8, 32} ELSE {2, 3, 4, 8, 16, 32}
\* "cancelrace": every client also calls Cancel() on its own query from a second goroutine while Exec runs
\* "distfallback": a distributed engine whose remote engines answer part of the queries through their fallback
\* "samecancel": every client runs the very same query; every other client cancels its own while it runs
Mixes == {"same", "basket", "fallback", "dist", "samefallback", "cancelrace", "distfallback", "samecancel"}
Basket == << "sum by (a) (m)", "m", "rate(m[3s])", "topk(2, m)", "m * on (a) group_left () n", "abs(m{a=\"x\"}) - m", "quantile by (a) (0.5, m)",
             "scalar(n{a=\"x\"}) + m", "-m", "m @ 4", "clamp_min(m, scalar(p))", "sum(m) / count(m)", "histogram_quantile(0.5, h_bucket)",
             "absent(nope)", "max_over_time(m[4s:2s])", "m and n", "label_replace(m, \"c\", \"$1\", \"a\", \"(.*)\")", "sort(m)",
             \* constructs the engine lacks below an aggregation that is pushed down to the remote engines
             "sum by (a) (round(m))", "max by (a) (sgn(m))", "round(m)", "sum by (a) (max_over_time(m[4s:2s]))" >>
Data == << Series(<< <<"__name__","m">>, <<"a","x">>, <<"b","1">> >>, [i \in 1..14 |-> Smp(i - 1, "f", i)]),
           Series(<< <<"__name__","m">>, <<"a","x">>, <<"b","2">> >>, [i \in 1..14 |-> Smp(i - 1, "f", 20 + i)]),
           Series(<< <<"__name__","m">>, <<"Zone","eu">>, <<"a","y">>, <<"b","1">> >>, [i \in 1..7 |-> Smp(2 * i - 1, "f", 50 - i)]),
           Series(<< <<"__name__","n">>, <<"a","x">> >>, [i \in 1..14 |-> Smp(i - 1, "f", 2)]),
           Series(<< <<"__name__","n">>, <<"a","y">> >>, [i \in 1..14 |-> Smp(i - 1, "f", 4)]),
           Series(<< <<"__name__","p">> >>, [i \in 1..14 |-> Smp(i - 1, "f", (i % 2) + 1)]),
           Series(<< <<"__name__","h_bucket">>, <<"le","1">> >>, [i \in 1..14 |-> Smp(i - 1, "f", i)]),
           Series(<< <<"__name__","h_bucket">>, <<"le","+Inf">> >>, [i \in 1..14 |-> Smp(i - 1, "f", 2 * i)]) >>
VARIABLE g
Init == g \in [k : Ks, mix : Mixes, win : {"instant", "range"}, rounds : {1, 3}, stagger : BOOLEAN, first : 1..6]
Next == UNCHANGED g
ScnOf(x) == Scn("conc", "C12", TickMs, Data, <<>>, 2, IF x.win = "instant" THEN 2 ELSE 13, IF x.win = "instant" THEN 0 ELSE 1, 2, 0)
            @@ [q |-> "concurrent", cfg |-> [k |-> x.k, mix |-> x.mix, rounds |-> x.rounds, stagger |-> x.stagger, first |-> x.first, basket |-> Basket]]
EmitConc == IF (g.k * 7 + g.first * 3 + g.rounds + (IF g.stagger THEN 1 ELSE 0)) % Mod = Seed % Mod THEN Emit(ScnOf(g)) ELSE TRUE
=============================================================================
