----------------------------- MODULE QueryTrace -----------------------------
(***************************************************************************)
(* Trace specification for query scenarios (C01-C06, C19; the result half  *)
(* of C07/C16).  One scenario = a header event "sc" (dataset, plan, window *)
(* in the encoding PromQLRef evaluates), result events of the engine under *)
(* test ("eng") and of the pinned reference engine ("ref"), the Go         *)
(* comparator's verdict "cmp" (values up to rounding), and "end".          *)
(*                                                                         *)
(* TLC consumes the trace line by line; at "end" it evaluates              *)
(*   EngEqualsRef   the engine agrees with the reference engine            *)
(*   EngEqualsSpec  the engine agrees with PromQLRef (structural scenarios)*)
(*   RefEqualsSpec  calibration of PromQLRef against Prometheus            *)
(*   WF*            well-formedness of the engine's result (C19)           *)
(* Failures are accumulated in viol and printed once at the end.           *)
(***************************************************************************)
EXTENDS PromQLRef, Json

CONSTANT TraceFile,
         WFOnly      \* TRUE: only the well-formedness clauses and the engine / reference comparison are evaluated
                     \* (C19's check; PromQLRef's denotation of the scenario is not computed)
Trace == ndJsonDeserialize(TraceFile)

VARIABLES l, cur, eng, ref, cmpok, viol, stat, calib
vars == <<l, cur, eng, ref, cmpok, viol, stat, calib>>

None == [kind |-> "none", err |-> "", series |-> <<>>]
Stat0 == [sc |-> 0, structural |-> 0, calibrated |-> 0, calibmiss |-> 0, specerr |-> 0, skipped |-> 0, dead |-> 0, tie |-> 0]

Init == /\ l = 1 /\ cur = [id |-> ""] /\ eng = None /\ ref = None /\ cmpok = [equal |-> TRUE, what |-> "", shape |-> ""]
        /\ viol = {} /\ stat = Stat0 /\ calib = {}

\* ------------------------------------------------------------------ result projection
NAt(r, tms) == LET cnt(x) == Cardinality({y \in 1..Len(r.series[x].pts) : r.series[x].pts[y].t = tms})
                   RECURSIVE S(_)
                   S(x) == IF x = 0 THEN 0 ELSE S(x - 1) + cnt(x)
               IN S(Len(r.series))
NPoints(r) == LET RECURSIVE S(_)
                  S(x) == IF x = 0 THEN 0 ELSE S(x - 1) + Len(r.series[x].pts)
              IN S(Len(r.series))

ElemsAt(r, tms) ==
  UNION { { [ls |-> ToSet(r.series[x].ls), k |-> r.series[x].pts[y].k, v |-> r.series[x].pts[y].v] :
              y \in {y \in 1..Len(r.series[x].pts) : r.series[x].pts[y].t = tms} } : x \in 1..Len(r.series) }

ValMatch(sv, k, v) == sv.k = "op" \/ (sv.k = k /\ (k # "i" \/ sv.v = v))

StepMatches(specVec, r, tms) ==
  LET es == ElemsAt(r, tms) IN
  /\ NAt(r, tms) = Len(specVec)
  /\ \A x \in 1..Len(specVec) : \E e \in es : e.ls = specVec[x].ls /\ ValMatch(specVec[x].val, e.k, e.v)
  /\ \A e \in es : \E x \in 1..Len(specVec) : e.ls = specVec[x].ls /\ ValMatch(specVec[x].val, e.k, e.v)

\* does result r agree with the per-step results gr of scenario sc ?
AgreesWithSpec(sc, gr, r) ==
  IF AnyErr(gr) THEN r.err # ""
  ELSE /\ r.err = ""
       /\ LET g == Grid(sc) IN
          /\ \A x \in 1..Len(g) : StepMatches(gr[x].vec, r, g[x] * sc.tickms)
          /\ LET RECURSIVE S(_)
                 S(x) == IF x = 0 THEN 0 ELSE S(x - 1) + Len(gr[x].vec)
             IN NPoints(r) = S(Len(g))

\* ------------------------------------------------------------------ well-formedness (C19)
RECURSIVE LexLess(_, _)
LexLess(a, b) == IF Len(a) = 0 THEN Len(b) > 0
                 ELSE IF Len(b) = 0 THEN FALSE
                 ELSE IF a[1] < b[1] THEN TRUE
                 ELSE IF a[1] > b[1] THEN FALSE
                 ELSE LexLess(Tail(a), Tail(b))

OnGrid(sc, tms) == IF sc.step = 0 THEN tms = sc.start * sc.tickms
                   ELSE /\ tms >= sc.start * sc.tickms /\ tms <= sc.end * sc.tickms
                        /\ (tms - sc.start * sc.tickms) % (sc.step * sc.tickms) = 0

WFKind(sc, r)    == r.kind = sc.kind
WFSorted(sc, r)  == IF r.kind = "matrix" /\ sc.step # 0
                      THEN \A x \in 1..(Len(r.series) - 1) : LexLess(r.series[x].key, r.series[x + 1].key)
                      ELSE \A x, y \in 1..Len(r.series) : x < y => r.series[x].key # r.series[y].key
WFNonEmpty(sc, r) == r.kind = "matrix" => \A x \in 1..Len(r.series) : Len(r.series[x].pts) > 0
WFTimes(sc, r)   == \A x \in 1..Len(r.series) :
                       /\ \A y \in 1..Len(r.series[x].pts) : OnGrid(sc, r.series[x].pts[y].t)
                       /\ \A y \in 1..(Len(r.series[x].pts) - 1) : r.series[x].pts[y].t < r.series[x].pts[y + 1].t
\* key = ranks of name, value, name, value ... in the raw label order; rank 0 is the empty string
WFLabels(sc, r)  == \A x \in 1..Len(r.series) : LET k == r.series[x].key IN
                       /\ \A j \in 1..Len(k) : k[j] # 0
                       /\ \A j \in 1..(Len(k) \div 2 - 1) : k[2 * j - 1] < k[2 * j + 1]
WFNoStale(sc, r) == \A x \in 1..Len(r.series) : \A y \in 1..Len(r.series[x].pts) : r.series[x].pts[y].k # "stale"

WFClauses(sc, r) ==
  (IF WFKind(sc, r) THEN {} ELSE {"WFKind"}) \cup
  (IF WFSorted(sc, r) THEN {} ELSE {"WFSorted"}) \cup
  (IF WFNonEmpty(sc, r) THEN {} ELSE {"WFNonEmpty"}) \cup
  (IF WFTimes(sc, r) THEN {} ELSE {"WFTimes"}) \cup
  (IF WFLabels(sc, r) THEN {} ELSE {"WFLabels"}) \cup
  (IF WFNoStale(sc, r) THEN {} ELSE {"WFNoStale"})

\* ------------------------------------------------------------------ events
IsEv(e) == l <= Len(Trace) /\ Trace[l].ev = e /\ l' = l + 1

Header == /\ IsEv("sc")
          /\ cur' = Trace[l] /\ eng' = None /\ ref' = None
          /\ cmpok' = [equal |-> TRUE, what |-> "", shape |-> ""]
          /\ stat' = [stat EXCEPT !.sc = @ + 1]
          /\ UNCHANGED <<viol, calib>>

ResEv == /\ IsEv("res")
         /\ IF Trace[l].who = "eng" THEN eng' = Trace[l].r /\ UNCHANGED ref
                                    ELSE ref' = Trace[l].r /\ UNCHANGED eng
         /\ UNCHANGED <<cur, cmpok, viol, stat, calib>>

CmpEv == /\ IsEv("cmp") /\ cmpok' = Trace[l].d /\ UNCHANGED <<cur, eng, ref, viol, stat, calib>>

\* the engine's process died while evaluating the scenario (C13's business; recorded here)
DeadEv == /\ IsEv("dead")
          /\ viol' = viol \cup {<<cur.id, "ProcessDead", Trace[l].why>>}
          /\ stat' = [stat EXCEPT !.dead = @ + 1]
          /\ UNCHANGED <<cur, eng, ref, cmpok, calib>>

SkipEv == /\ IsEv("skip") /\ stat' = [stat EXCEPT !.skipped = @ + 1] /\ UNCHANGED <<cur, eng, ref, cmpok, viol, calib>>

EndEv ==
  /\ IsEv("end")
  /\ LET sc == cur
         done == eng.kind # "none" \/ eng.err # ""
         gr == GridRes(sc)
         structural == ~WFOnly /\ sc.spec /\ ~AnyUnk(gr)
         tie == sc.spec /\ AnyTie(sc)
         refok == structural /\ AgreesWithSpec(sc, gr, ref)
         engok == AgreesWithSpec(sc, gr, eng)
         \* the detail names the reasons for which the reference fails the query (all error steps)
         RECURSIVE Cat(_)
         Cat(q) == IF Len(q) = 0 THEN "" ELSE IF Len(q) = 1 THEN q[1] ELSE q[1] \o "," \o Cat(Tail(q))
         \* a collision of label sets that arises only in the output of the root node is named "dupls-root"
         \* (every result is checked for it); "dupls" is a collision inside the expression
         root == sc.plan[Len(sc.plan)]
         kidwhys == IF "dupls" \in Whys(gr)
                    THEN UNION {Whys(GridRes([sc EXCEPT !.plan = SubSeq(sc.plan, 1, root.args[k])])) : k \in 1..Len(root.args)}
                    ELSE {}
         whys == IF "dupls" \in Whys(gr) /\ "dupls" \notin kidwhys THEN (Whys(gr) \ {"dupls"}) \cup {"dupls-root"} ELSE Whys(gr)
         whytxt == IF structural THEN "why=" \o Cat(SetToSortSeq(whys, LAMBDA a, b : TRUE)) ELSE "why=?"
         v2 == IF refok /\ ~engok THEN {<<sc.id, "EngEqualsSpec", whytxt>>} ELSE {}
         v1 == IF cmpok.equal \/ tie THEN {} ELSE {<<sc.id, "EngEqualsRef", cmpok.what \o ":" \o cmpok.shape \o " " \o whytxt>>}
         v3 == IF eng.err = "" THEN {<<sc.id, c, "">> : c \in WFClauses(sc, eng)} ELSE {}
     IN IF ~done THEN UNCHANGED <<viol, stat, calib>>
        ELSE /\ viol' = viol \cup v1 \cup v2 \cup v3
             /\ calib' = IF structural /\ ~refok /\ Cardinality(calib) < 20 THEN calib \cup {sc.id} ELSE calib
             /\ stat' = [stat EXCEPT !.structural = @ + (IF structural THEN 1 ELSE 0),
                                     !.calibrated = @ + (IF refok THEN 1 ELSE 0),
                                     !.calibmiss = @ + (IF structural /\ ~refok THEN 1 ELSE 0),
                                     !.specerr = @ + (IF structural /\ AnyErr(gr) THEN 1 ELSE 0),
                                     !.tie = @ + (IF ~WFOnly /\ tie THEN 1 ELSE 0)]
  /\ UNCHANGED <<cur, eng, ref, cmpok>>

\* any other event kind (operator events are StreamTrace's business) is consumed silently
OtherEv == /\ l <= Len(Trace) /\ Trace[l].ev \notin {"sc", "res", "cmp", "dead", "skip", "end"}
           /\ l' = l + 1 /\ UNCHANGED <<cur, eng, ref, cmpok, viol, stat, calib>>

Next == Header \/ ResEv \/ CmpEv \/ DeadEv \/ SkipEv \/ EndEv \/ OtherEv
Spec == Init /\ [][Next]_vars

\* ------------------------------------------------------------------ reporting / acceptance
Done == l = Len(Trace) + 1 =>
          /\ PrintT(<<"VIOL", ToJson(SetToSeq(viol))>>)
          /\ PrintT(<<"STAT", ToJson(stat)>>)
          /\ PrintT(<<"CALIB", ToJson(SetToSeq(calib))>>)
Accepted == TLCGet("stats").diameter - 1 = Len(Trace)
=============================================================================
