-------------------------------- MODULE Shards --------------------------------
(***************************************************************************)
(* Sharding of a selector's series over N parallel scanners (C02, C11).    *)
(* execution/storage.seriesShard gives shard i of N the slice              *)
(*   [ i*n \div N , (i+1)*n \div N )                                       *)
(* of the n selected series and re-numbers its series from 0; the coalesce *)
(* operator adds, to the IDs of shard i, the total size of the shards      *)
(* before it.  Checked for all n <= MaxSeries, N <= MaxShards: the shards  *)
(* are contiguous, pairwise disjoint and cover 0..n-1 (Partition), and the *)
(* re-based IDs are a bijection onto 0..n-1 that preserves the series      *)
(* order (IdBijection).  The module also emits scenarios with n series for   *)
(* replay under every core count (C11).                                    *)
(***************************************************************************)
EXTENDS ScnLib

CONSTANTS Tier, Seed, Mod, TickMs
Q == Tier = "quick"
MaxSeries == 40
MaxShards == 8

Lo(i, n, N) == (i * n) \div N
Hi(i, n, N) == ((i + 1) * n) \div N
Shard(i, n, N) == {k \in 0..(n - 1) : k >= Lo(i, n, N) /\ k < Hi(i, n, N)}
Offset(i, n, N) == LET RECURSIVE S(_)
                       S(j) == IF j = 0 THEN 0 ELSE S(j - 1) + Cardinality(Shard(j - 1, n, N))
                   IN S(i)
\* global ID the coalesce operator gives to the series with shard-local ID l of shard i
Rebased(i, l, n, N) == Offset(i, n, N) + l

VARIABLE g
Counts == IF Q THEN {0, 1, 2, 3, 5, 7, 8, 9, 16, 17, 40} ELSE 0..MaxSeries
Init == g \in [n : Counts, N : 1..MaxShards, q : 1..34, win : {"instant", "range", "late", "long"}]
Next == UNCHANGED g

Partition == /\ UNION {Shard(i, g.n, g.N) : i \in 0..(g.N - 1)} = 0..(g.n - 1)
             /\ \A i, j \in 0..(g.N - 1) : i # j => Shard(i, g.n, g.N) \cap Shard(j, g.n, g.N) = {}
IdBijection == \A i \in 0..(g.N - 1) : \A k \in Shard(i, g.n, g.N) : Rebased(i, k - Lo(i, g.n, g.N), g.n, g.N) = k

\* ---- scenarios: n series m{i="k", a=...} (+ a second metric), distinct values, a basket of queries
Digit(k) == <<"0","1","2","3","4","5","6","7","8","9">>[k + 1]
Name(k) == IF k < 10 THEN Digit(k) ELSE Digit(k \div 10) \o Digit(k % 10)
AVal(k) == <<"x", "y", "z">>[(k % 3) + 1]
\* (span: 44 ticks of samples; 165 for the long window)
Data(n, span) == [k \in 1..n |-> Series(<< <<"__name__","m">>, <<"a", AVal(k)>>, <<"i", Name(k)>> >>,
                                  [u \in 1..span |-> Smp(u - 1, IF (k + u) % 11 = 0 THEN "s" ELSE "f", 100 * k + u)])]
           \o [k \in 1..(IF n > 3 THEN 3 ELSE n) |-> Series(<< <<"__name__","n">>, <<"a", AVal(k)>> >>, [u \in 1..span |-> Smp(u - 1, "f", k + 1)])]
           \* a metric with NaN samples: which series holds one changes from tick to tick (the first, a middle, the last of a shard)
           \o [k \in 1..n |-> Series(<< <<"__name__","v">>, <<"a", AVal(k)>>, <<"i", Name(k)>> >>,
                                  [u \in 1..span |-> Smp(u - 1, IF (k + u) % 4 = 0 THEN "nan" ELSE "f", 7 * k + u)])]
M == <<Sel(<<Metric("m")>>)>>
N2 == <<Sel(<<Metric("n")>>)>>
V == <<Sel(<<Metric("v")>>)>>
Basket == <<
  M, Over(M, LAMBDA c : Agg("sum", TRUE, <<>>, <<c>>)), Over(M, LAMBDA c : Agg("sum", TRUE, <<"a">>, <<c>>)),
  Over(M, LAMBDA c : Agg("count", FALSE, <<"i">>, <<c>>)), Over(M, LAMBDA c : Agg("max", TRUE, <<"a">>, <<c>>)),
  Join(<<Num(3)>>, M, LAMBDA a, b : Agg("topk", TRUE, <<>>, <<a, b>>)), Join(<<Num(1)>>, M, LAMBDA a, b : Agg("bottomk", TRUE, <<"a">>, <<a, b>>)),
  <<RFn("sum_over_time", <<Metric("m")>>, 3, 0, "none", 0)>>, <<RFn("rate", <<Metric("m")>>, 4, 1, "none", 0)>>,
  Over(<<RFn("count_over_time", <<Metric("m")>>, 2, 0, "none", 0)>>, LAMBDA c : Agg("sum", TRUE, <<"a">>, <<c>>)),
  Over(M, LAMBDA c : Fn("abs", <<c>>)), Over(M, LAMBDA c : NegN(c)), Join(M, <<Num(2)>>, LAMBDA a, b : Bin("*", a, b)),
  Join(M, <<Num(500)>>, LAMBDA a, b : Bin(">", a, b)), Join(M, M, LAMBDA a, b : Bin("+", a, b)),
  Join(M, N2, LAMBDA a, b : BinM("*", a, b, FALSE, "N:1", TRUE, <<"a">>, <<>>)),
  Join(Over(M, LAMBDA c : Agg("sum", TRUE, <<"a">>, <<c>>)), N2, LAMBDA a, b : BinM("/", a, b, FALSE, "1:1", TRUE, <<"a">>, <<>>)),
  Over(M, LAMBDA c : Fn("scalar", <<c>>)), Over(<<Sel(<<Metric("m"), Eq("i", "3")>>)>>, LAMBDA c : Fn("scalar", <<c>>)),
  <<SelAt(<<Metric("m")>>, 0, "lit", 5)>>, Over(<<SelAt(<<Metric("m")>>, 1, "end", 0)>>, LAMBDA c : Agg("sum", TRUE, <<"a">>, <<c>>)),
  Join(<<NumS("0.5")>>, M, LAMBDA a, b : Agg("quantile", TRUE, <<"a">>, <<a, b>>)),
  Over(M, LAMBDA c : Agg("stddev", TRUE, <<>>, <<c>>)), Over(Over(M, LAMBDA c : Agg("sum", TRUE, <<"a", "i">>, <<c>>)), LAMBDA c : Agg("max", TRUE, <<"a">>, <<c>>)),
  Join(M, <<Sel(<<Metric("m"), Eq("a", "x")>>)>>, LAMBDA a, b : Bin("-", a, b)),
  \* long windows over dense data: more samples per window than any initial buffer holds, windows that overlap
  <<RFn("sum_over_time", <<Metric("m")>>, 25, 0, "none", 0)>>, <<RFn("rate", <<Metric("m")>>, 30, 1, "none", 0)>>,
  Over(<<RFn("max_over_time", <<Metric("m")>>, 20, 0, "none", 0)>>, LAMBDA c : Agg("sum", TRUE, <<"a">>, <<c>>)),
  \* reductions that skip NaN members wherever they sit in the input
  Over(V, LAMBDA c : Agg("max", TRUE, <<>>, <<c>>)), Over(V, LAMBDA c : Agg("min", TRUE, <<>>, <<c>>)),
  Over(V, LAMBDA c : Agg("min", TRUE, <<"a">>, <<c>>)), Over(V, LAMBDA c : Agg("max", FALSE, <<"i">>, <<c>>)),
  \* a mean is not the mean of the means of parts of unequal size
  Over(M, LAMBDA c : Agg("avg", TRUE, <<>>, <<c>>)), Over(M, LAMBDA c : Agg("avg", TRUE, <<"a">>, <<c>>)), Over(M, LAMBDA c : Agg("avg", FALSE, <<"i">>, <<c>>)) >>

\* "late": 12 steps from tick 30 on (the long windows are full there)
\* "long": 150 steps over 165 ticks of samples (results of up to 40 series with more than 121 points each, staleness markers included)
ScnOf(x) == Scn("shard", "C11", TickMs, Data(x.n, IF x.win = "long" THEN 165 ELSE 44), Basket[x.q], IF x.win = "late" THEN 30 ELSE 2,
                IF x.win = "instant" THEN 2 ELSE IF x.win = "range" THEN 13 ELSE IF x.win = "long" THEN 151 ELSE 41,
                IF x.win = "instant" THEN 0 ELSE 1, 2, 0)
\* one scenario per (n, query, window): N only matters for the model-level laws
\* (the long window: the two largest series counts under five of the queries - in every residue class)
LongOK(x) == x.win # "long" \/ (x.n \in {17, 40} /\ x.q \in {1, 3, 5, 11, 13})
EmitShard == IF g.N = 1 /\ LongOK(g) /\ (g.win = "long" \/ (g.n * 7 + g.q * 3 + (IF g.win = "instant" THEN 0 ELSE IF g.win = "range" THEN 1 ELSE IF g.win = "late" THEN 2 ELSE 3)) % Mod = Seed % Mod) THEN Emit(ScnOf(g)) ELSE TRUE
=============================================================================
