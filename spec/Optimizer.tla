------------------------------ MODULE Optimizer ------------------------------
(***************************************************************************)
(* Logical-plan optimizers (C09), implementation shaped:                   *)
(*                                                                         *)
(*  MergeSelects   extractSelectors fills a "heap" keyed by the VALUE of   *)
(*                 every __name__ matcher with the SHORTEST matcher list   *)
(*                 seen for it (first wins on ties); replaceMatchers       *)
(*                 replaces a selector by the heap's list when every       *)
(*                 matcher of that list is one of the selector's matchers  *)
(*                 and the two lists are not equal as sets, and turns the  *)
(*                 selector's remaining matchers into an in-engine filter  *)
(*                 (execution/storage/filter.go: every filter matcher must *)
(*                 accept the label's value, "" when the label is absent). *)
(*  Propagate      for `A + B` (arithmetic, no on/ignoring labels, one-to- *)
(*                 one) over two different metrics both selectors get the  *)
(*                 label matchers of both sides, unless they share one.    *)
(*  SortMatchers   reorders matchers by label name (selection is order     *)
(*                 independent by construction of Sel).                    *)
(*                                                                         *)
(* Checked exhaustively: for every ordered pair of selectors over the      *)
(* matcher alphabet (2 keys x 4 matcher types x values incl. "" and        *)
(* regexes accepting ""; up to 2 matchers per selector, repeated keys      *)
(* allowed) and the dataset with every label-presence combination, the     *)
(* rewritten selectors select exactly what the originals select            *)
(* (MergeSound) and `A + B` joins the same pairs (PropagateSound).         *)
(* The same module emits the pairs as replay scenarios.                    *)
(***************************************************************************)
EXTENDS ScnLib

CONSTANTS Tier, Seed, Mod, TickMs

Q == Tier = "quick"
Vals == {"", "x", "y"}
Keys == {"a", "b"}
Names == {"m", "n"}

\* matcher alphabet (acc = values of Vals the anchored regex accepts)
MK(k) == IF Q
  THEN {Eq(k, "x"), Eq(k, ""), Neq(k, "x"), Neq(k, ""), Re(k, "x|y", <<"x", "y">>), Re(k, ".*", <<"", "x", "y">>), NRe(k, "x|z", <<"x">>)}
  ELSE {Eq(k, "x"), Eq(k, "y"), Eq(k, ""), Neq(k, "x"), Neq(k, "y"), Neq(k, ""), Re(k, "x|y", <<"x", "y">>), Re(k, ".*", <<"", "x", "y">>),
        Re(k, ".+", <<"x", "y">>), NRe(k, "x|z", <<"x">>), NRe(k, ".+", <<"x", "y">>), NRe(k, "y", <<"y">>)}
MA == UNION {MK(k) : k \in Keys}
\* ... and lists that give one matcher twice next to a matcher on the other label
MatcherLists == {<<>>} \cup {<<m>> : m \in MA} \cup {<<m1, m2>> : m1 \in MA, m2 \in MA}
                \cup {<<m1, m1, m2>> : m1 \in MK("a"), m2 \in MK("b")} \cup {<<m2, m1, m2>> : m1 \in MK("a"), m2 \in MK("b")}

\* dataset: every label-presence combination for both metrics
Data == {[name |-> nm, a |-> va, b |-> vb] : nm \in Names, va \in Vals, vb \in Vals}
LabelOf(s, k) == IF k = "a" THEN s.a ELSE IF k = "b" THEN s.b ELSE IF k = "__name__" THEN s.name ELSE ""

MatchVal(m, x) == CASE m.t = "="  -> x = m.v
                    [] m.t = "!=" -> x # m.v
                    [] m.t = "=~" -> x \in ToSet(m.acc)
                    [] m.t = "!~" -> x \notin ToSet(m.acc)
MatchesAll(ms, s) == \A i \in 1..Len(ms) : MatchVal(ms[i], LabelOf(s, ms[i].n))

\* a selector is its full matcher list (the metric-name matcher first, as the parser builds it)
Full(nm, ms) == <<Metric(nm)>> \o ms
Selected(full) == {s \in Data : MatchesAll(full, s)}
NameOf(full) == full[1].v

VARIABLE g
Init == g \in [n1 : Names, m1 : MatcherLists, n2 : Names, m2 : MatcherLists]
Next == UNCHANGED g

S1(x) == Full(x.n1, x.m1)
S2(x) == Full(x.n2, x.m2)

\* ------------------------------------------------------------------ MergeSelects
InList(l, m) == \E i \in 1..Len(l) : l[i] = m
\* heap after visiting S1 then S2 (traversal order): the shortest list per metric name, first wins ties
Heap(x, nm) == LET c1 == IF NameOf(S1(x)) = nm THEN {S1(x)} ELSE {}
                   c2 == IF NameOf(S2(x)) = nm THEN {S2(x)} ELSE {}
               IN IF c1 = {} THEN (IF c2 = {} THEN <<>> ELSE S2(x))
                  ELSE IF c2 = {} THEN S1(x)
                  ELSE IF Len(S2(x)) < Len(S1(x)) THEN S2(x) ELSE S1(x)
\* [sel, flt]: matchers sent to the storage and matchers applied by the in-engine filter
Rewrite(x, full) ==
  LET top == Heap(x, NameOf(full))
      usable == top # <<>> /\ (\A i \in 1..Len(top) : InList(full, top[i])) /\ ~(\A i \in 1..Len(full) : InList(top, full[i]))
  IN IF usable THEN [sel |-> top, flt |-> SelectSeq(full, LAMBDA f : ~InList(top, f)), merged |-> TRUE]
     ELSE [sel |-> full, flt |-> <<>>, merged |-> FALSE]
RewSel(r) == {s \in Data : MatchesAll(r.sel, s) /\ MatchesAll(r.flt, s)}

MergeSound == /\ RewSel(Rewrite(g, S1(g))) = Selected(S1(g))
              /\ RewSel(Rewrite(g, S2(g))) = Selected(S2(g))
\* a merged selector never asks the storage for less than it needs
MergeWidens == \A f \in {S1(g), S2(g)} : Selected(f) \subseteq Selected(Rewrite(g, f).sel)

\* ------------------------------------------------------------------ PropagateMatchers
Applies(x) == x.n1 # x.n2 /\ ~(\E i \in 1..Len(x.m1) : InList(x.m2, x.m1[i]))
Union(x) == x.m1 \o x.m2
\* pairs joined by `A + B` (one-to-one on all labels but the name)
Pairs(f1, f2) == {<<s, t>> \in Selected(f1) \X Selected(f2) : s.a = t.a /\ s.b = t.b}
PropagateSound == Applies(g) => Pairs(Full(g.n1, Union(g)), Full(g.n2, Union(g))) = Pairs(S1(g), S2(g))

\* ------------------------------------------------------------------ scenario emission
DataSeq == SetToSortSeq(Data, LAMBDA s, t : TRUE)
LSOf(s) == <<<<"__name__", s.name>>>> \o (IF s.a = "" THEN <<>> ELSE <<<<"a", s.a>>>>) \o (IF s.b = "" THEN <<>> ELSE <<<<"b", s.b>>>>)
\* (for the replay a third metric k with a single series: next to n it is a duplicate for the match at a="x", b="x" only)
DataScn == [i \in 1..Len(DataSeq) |-> Series(LSOf(DataSeq[i]), [u \in 1..6 |-> Smp(u - 1, "f", 3 * i + u)])]
           \o << Series(<< <<"__name__", "k">>, <<"a", "x">>, <<"b", "x">> >>, [u \in 1..6 |-> Smp(u - 1, "f", 500 + u)]) >>
           \* ... and a metric d whose series are duplicates for a match on (a, b) / ignoring (c) at a="x" only
           \o << Series(<< <<"__name__", "d">>, <<"a", "x">>, <<"b", "x">>, <<"c", "1">> >>, [u \in 1..6 |-> Smp(u - 1, "f", 600 + u)]),
                 Series(<< <<"__name__", "d">>, <<"a", "x">>, <<"b", "x">>, <<"c", "2">> >>, [u \in 1..6 |-> Smp(u - 1, "f", 700 + u)]),
                 Series(<< <<"__name__", "d">>, <<"a", "y">>, <<"b", "x">> >>, [u \in 1..6 |-> Smp(u - 1, "f", 800 + u)]),
                 Series(<< <<"__name__", "d">>, <<"a", "y">>, <<"b", "y">> >>, [u \in 1..6 |-> Smp(u - 1, "f", 900 + u)]) >>
           \* ... and a histogram hb (per a): a function that removes a label (le) stands between its selector and the operator
           \o << Series(<< <<"__name__", "hb">>, <<"a", "x">>, <<"le", "1">> >>, [u \in 1..6 |-> Smp(u - 1, "f", 2)]),
                 Series(<< <<"__name__", "hb">>, <<"a", "x">>, <<"le", "+Inf">> >>, [u \in 1..6 |-> Smp(u - 1, "f", 4)]),
                 Series(<< <<"__name__", "hb">>, <<"a", "y">>, <<"le", "1">> >>, [u \in 1..6 |-> Smp(u - 1, "f", 1)]),
                 Series(<< <<"__name__", "hb">>, <<"a", "y">>, <<"le", "+Inf">> >>, [u \in 1..6 |-> Smp(u - 1, "f", 8)]) >>

\* binon: `A + on () B` - selectors as direct operands, but matched on no label at all
\* binona / binign: direct operands matched on one label / on all but one label
\* scalararg / aggparam / vecscalar / tsarg: one selector inside a scalar argument, an aggregation parameter, scalar() or timestamp()
Positions == <<"bin", "sum", "fnarg", "range", "aggby", "groupleft", "cmp", "neg", "paren", "nested", "binon", "binona", "binign",
               "scalararg", "aggparam", "vecscalar", "tsarg">>
\* a well-mixed hash of the pair (indices of the matchers in the alphabet), so that every residue class holds every kind of pair
MASeq == SetToSeq(MA)
Idx(m) == CHOOSE i \in 1..Len(MASeq) : MASeq[i] = m
LH(ms, p, q) == IF Len(ms) = 0 THEN 0 ELSE IF Len(ms) = 1 THEN Idx(ms[1]) * p ELSE IF Len(ms) = 2 THEN Idx(ms[1]) * p + Idx(ms[2]) * q + 13
                ELSE Idx(ms[1]) * p + Idx(ms[2]) * q + Idx(ms[3]) * 31 + 29
Hash(x) == LH(x.m1, 7919, 104729) + LH(x.m2, 1299709, 15485863) + (IF x.n1 = "m" THEN 0 ELSE 32452843) + (IF x.n2 = "m" THEN 0 ELSE 2 * 32452843)
\* different metrics sharing a matcher: PropagateMatchers looks at the pair and must leave it alone
Shared(x) == x.n1 # x.n2 /\ (\E i \in 1..Len(x.m1) : InList(x.m2, x.m1[i]))
\* `A + B` with both selectors as direct operands is the only position PropagateMatchers rewrites: half of the pairs it looks at go there
PosOf(x) == IF (Applies(x) \/ Shared(x)) /\ (Hash(x) \div Mod) % 2 = 0 THEN (LET r == (Hash(x) \div (2 * Mod)) % 6 IN IF r = 0 THEN "binon" ELSE IF r = 1 THEN "binona" ELSE IF r = 2 THEN "binign" ELSE "bin")
            ELSE Positions[((Hash(x) \div (2 * Mod)) % Len(Positions)) + 1]

PlanOf(x) ==
  LET p == PosOf(x)  a == <<[Blank("sel") EXCEPT !.m = S1(x)]>>  b == <<[Blank("sel") EXCEPT !.m = S2(x)]>> IN
  CASE p = "bin"   -> Join(a, b, LAMBDA i, j : Bin("+", i, j))
    [] p = "binon" -> Join(a, b, LAMBDA i, j : BinM("*", i, j, FALSE, "1:1", TRUE, <<>>, <<>>))
    [] p = "binona" -> Join(a, b, LAMBDA i, j : BinM("*", i, j, FALSE, "1:1", TRUE, <<"a">>, <<>>))
    [] p = "binign" -> Join(a, b, LAMBDA i, j : BinM("-", i, j, FALSE, "1:1", FALSE, <<"b">>, <<>>))
    [] p = "scalararg" -> Join(a, Over(Over(b, LAMBDA c : Agg("max", TRUE, <<>>, <<c>>)), LAMBDA c : Fn("scalar", <<c>>)), LAMBDA i, j : Fn("clamp_max", <<i, j>>))
    [] p = "aggparam"  -> Join(Over(Over(a, LAMBDA c : Agg("count", TRUE, <<>>, <<c>>)), LAMBDA c : Fn("scalar", <<c>>)), b, LAMBDA i, j : Agg("topk", TRUE, <<>>, <<i, j>>))
    [] p = "vecscalar" -> Join(Over(Over(Over(a, LAMBDA c : Agg("sum", TRUE, <<>>, <<c>>)), LAMBDA c : Fn("scalar", <<c>>)), LAMBDA c : Fn("vector", <<c>>)), b,
                               LAMBDA i, j : BinM("+", i, j, FALSE, "1:N", TRUE, <<>>, <<>>))
    [] p = "tsarg"     -> Join(Over(a, LAMBDA c : Fn("timestamp", <<c>>)), b, LAMBDA i, j : Bin("+", i, j))
    [] p = "cmp"   -> Join(a, b, LAMBDA i, j : Bin(">=", i, j))
    [] p = "sum"   -> Join(Over(a, LAMBDA c : Agg("sum", TRUE, <<>>, <<c>>)), Over(b, LAMBDA c : Agg("sum", TRUE, <<>>, <<c>>)), LAMBDA i, j : Bin("+", i, j))
    [] p = "fnarg" -> Join(Over(a, LAMBDA c : Fn("abs", <<c>>)), b, LAMBDA i, j : Bin("+", i, j))
    [] p = "neg"   -> Join(Over(a, LAMBDA c : NegN(c)), b, LAMBDA i, j : Bin("+", i, j))
    [] p = "paren" -> Join(Over(a, LAMBDA c : Paren(c)), b, LAMBDA i, j : Bin("-", i, j))
    [] p = "nested" -> Join(Join(a, <<Num(2)>>, LAMBDA i, j : Bin("*", i, j)), Over(b, LAMBDA c : Fn("abs", <<c>>)), LAMBDA i, j : Bin("+", i, j))
    [] p = "range" -> Join(<<[Blank("rfn") EXCEPT !.fn = "sum_over_time", !.m = S1(x), !.rng = 2]>>,
                          <<[Blank("rfn") EXCEPT !.fn = "count_over_time", !.m = S2(x), !.rng = 3]>>, LAMBDA i, j : Bin("+", i, j))
    [] p = "aggby" -> Join(Over(a, LAMBDA c : Agg("sum", TRUE, <<"a">>, <<c>>)), Over(b, LAMBDA c : Agg("max", FALSE, <<"b">>, <<c>>)),
                          LAMBDA i, j : BinM("/", i, j, FALSE, "1:1", TRUE, <<"a">>, <<>>))
    [] p = "groupleft" -> Join(a, Over(b, LAMBDA c : Agg("sum", TRUE, <<"a">>, <<c>>)), LAMBDA i, j : BinM("*", i, j, FALSE, "N:1", TRUE, <<"a">>, <<>>))

ScnOf(x) == Scn("opt", "C09", TickMs, DataScn, PlanOf(x), 2, 5, 1, 2, 0)

\* selectors with several matchers on the metric name (a family of metrics without one of them) next to a broader
\* selector of the family: outside the exhaustive model (whose selectors have one name matcher), replayed in every tier
NameRe == Re("__name__", "m|n", <<"m", "n">>)
Family == << <<NameRe, Neq("__name__", "n")>>, <<NameRe, Neq("__name__", "m"), Eq("a", "x")>>, <<NameRe, NRe("__name__", "n", <<"n">>), Neq("b", "")>>,
             <<NameRe, Eq("__name__", "m")>>, <<Eq("a", "x"), NameRe, Neq("__name__", "n")>> >>
Broader == << <<NameRe>>, <<NameRe, Eq("a", "x")>>, <<Re("__name__", ".+", <<"m", "n">>)>> >>
FamilyPlans == {Join(Over(<<[Blank("sel") EXCEPT !.m = Family[i]]>>, LAMBDA c : Agg("sum", TRUE, <<"a">>, <<c>>)),
                     Over(<<[Blank("sel") EXCEPT !.m = Broader[j]]>>, LAMBDA c : Agg("sum", TRUE, <<"a">>, <<c>>)),
                     LAMBDA a, b : BinM("/", a, b, FALSE, "1:1", TRUE, <<"a">>, <<>>)) : i \in 1..Len(Family), j \in 1..Len(Broader)}
               \cup {Join(<<[Blank("sel") EXCEPT !.m = Broader[j]]>>, Over(<<[Blank("sel") EXCEPT !.m = Family[i]]>>, LAMBDA c : Agg("count", TRUE, <<>>, <<c>>)),
                          LAMBDA a, b : BinM("*", a, b, FALSE, "N:1", TRUE, <<>>, <<>>)) : i \in 1..Len(Family), j \in 1..Len(Broader)}
\* a selector of one metric next to a selector of the family as DIRECT operands of an arithmetic operator: the family
\* side holds duplicates for the match (series of m and n with equal labels), which fails the query whatever the
\* other side selects - an optimizer that narrows the family side must not make that error go away
NK == Re("__name__", "n|k", <<"n", "k">>)
DirectPlans == {Join(<<[Blank("sel") EXCEPT !.m = <<Metric("m")>> \o ms]>>, <<[Blank("sel") EXCEPT !.m = <<NK>>]>>, LAMBDA a, b : Bin("+", a, b))
                   : ms \in {<<Eq("a", "y")>>, <<Eq("b", "y")>>, <<Eq("a", "x"), Eq("b", "x")>>, <<Neq("a", "x")>>}}
               \cup {Join(<<[Blank("sel") EXCEPT !.m = <<NK>>]>>, <<[Blank("sel") EXCEPT !.m = <<Metric("m"), Eq("a", "y")>>]>>, LAMBDA a, b : Bin("-", a, b))}
               \cup {Join(<<[Blank("sel") EXCEPT !.m = <<Metric("m")>> \o ms]>>, <<[Blank("sel") EXCEPT !.m = Broader[j]]>>, LAMBDA a, b : Bin("+", a, b))
                   : ms \in {<<Eq("a", "q")>>, <<Eq("a", "x")>>, <<Neq("b", "")>>, <<>>}, j \in 1..Len(Broader)}
               \cup {Join(<<[Blank("sel") EXCEPT !.m = Broader[j]]>>, <<[Blank("sel") EXCEPT !.m = <<Metric("n")>> \o ms]>>, LAMBDA a, b : Bin("*", a, b))
                   : ms \in {<<Eq("a", "q")>>, <<Eq("b", "y")>>}, j \in 1..Len(Broader)}
\* a selector of m next to the metric d as direct operands matched on a subset of the labels: d holds duplicates for the
\* match at a="x" only, which fails the query whatever the matchers of the m side say about a
MatchOn == << [on |-> TRUE, l |-> <<"a", "b">>], [on |-> TRUE, l |-> <<"a">>], [on |-> FALSE, l |-> <<"c">>], [on |-> FALSE, l |-> <<"b", "c">>] >>
SubsetPlans == {Join(<<[Blank("sel") EXCEPT !.m = <<Metric("m")>> \o ms]>>, <<[Blank("sel") EXCEPT !.m = <<Metric("d")>>]>>,
                     LAMBDA a, b : BinM("*", a, b, FALSE, "1:1", MatchOn[k].on, MatchOn[k].l, <<>>))
                   : ms \in {<<Eq("a", "y")>>, <<Eq("a", "y"), Eq("b", "y")>>, <<Neq("a", "x")>>}, k \in 1..Len(MatchOn)}
               \cup {Join(<<[Blank("sel") EXCEPT !.m = <<Metric("d")>>]>>, <<[Blank("sel") EXCEPT !.m = <<Metric("m")>> \o ms]>>,
                     LAMBDA a, b : BinM("-", a, b, FALSE, "1:1", MatchOn[k].on, MatchOn[k].l, <<>>))
                   : ms \in {<<Eq("a", "y")>>, <<Eq("a", "y"), Eq("b", "y")>>, <<Neq("a", "x")>>}, k \in 1..Len(MatchOn)}
\* histogram_quantile over a bucket selector next to a plain selector: the labels of the function's result are not the
\* labels of its selector (le is gone), so a matcher on le says nothing about the other side
HB(ms) == Join(<<NumS("0.5")>>, <<[Blank("sel") EXCEPT !.m = <<Metric("hb")>> \o ms]>>, LAMBDA a, b : Fn("histogram_quantile", <<a, b>>))
HistPlans == {Join(HB(ms), <<[Blank("sel") EXCEPT !.m = <<Metric("m"), Eq("b", "")>>]>>, LAMBDA a, b : Bin("*", a, b))
                 : ms \in {<<>>, <<Re("le", ".+", <<"1", "+Inf">>)>>, <<Neq("le", "")>>, <<Eq("a", "x")>>, <<Re("le", "1|.Inf", <<"1", "+Inf">>), Eq("a", "y")>>}}
             \cup {Join(<<[Blank("sel") EXCEPT !.m = <<Metric("m"), Eq("b", "")>> \o ms]>>, HB(<<>>), LAMBDA a, b : Bin("+", a, b))
                 : ms \in {<<Eq("le", "")>>, <<Neq("a", "x")>>}}
EmitFamily == (\A p \in HistPlans : Emit(Scn("opt", "C09", TickMs, DataScn, p, 2, 5, 1, 2, 0) @@ [pin |-> TRUE, cfg |-> [bare |-> 1]])) /\ (\A p \in SubsetPlans : Emit(Scn("opt", "C09", TickMs, DataScn, p, 2, 5, 1, 2, 0) @@ [pin |-> TRUE, cfg |-> [bare |-> 1]])) /\ (\A p \in DirectPlans : Emit(Scn("opt", "C09", TickMs, DataScn, p, 2, 5, 1, 2, 0) @@ [pin |-> TRUE, cfg |-> [bare |-> 1]])) /\ \A p \in FamilyPlans : Emit(Scn("opt", "C09", TickMs, DataScn, p, 2, 5, 1, 2, 0) @@ [pin |-> TRUE])
\* emit pairs on which a rewrite actually fires or which PropagateMatchers inspects and rejects, from the seeded residue class
Fires(x) == Rewrite(x, S1(x)).merged \/ Rewrite(x, S2(x)).merged \/ Applies(x)
\* ... and, at a third of that rate, pairs on which the model says NO rewrite fires (a change that
\* makes a rewrite fire more often must be seen too)
EmitOpt == (g # [n1 |-> "m", m1 |-> <<>>, n2 |-> "m", m2 |-> <<>>] \/ EmitFamily) /\ IF ((Fires(g) \/ Shared(g)) /\ Hash(g) % Mod = Seed % Mod) \/ (~Fires(g) /\ ~Shared(g) /\ Hash(g) % (3 * Mod) = Seed % (3 * Mod))
           THEN Emit(ScnOf(g)) ELSE TRUE
=============================================================================
