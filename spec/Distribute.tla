----------------------------- MODULE Distribute ------------------------------
(***************************************************************************)
(* Distributed execution (C10), implementation shaped.  The optimizer      *)
(* DistributedExecutionOptimizer rewrites the plan bottom-up:              *)
(*   - a DISTRIBUTIVE aggregation (sum min max group count topk bottomk)   *)
(*     whose operand chain contains no binary expression and no other kind *)
(*     of aggregation becomes  agg'(coalesce(remote_e(agg ...)))  with     *)
(*     count -> sum;                                                       *)
(*   - any other maximal subtree without binary expressions / non-         *)
(*     distributive aggregations becomes coalesce(remote_e(subtree));      *)
(*   - binary expressions and non-distributive aggregations are evaluated  *)
(*     centrally over those.                                               *)
(* remote_e(q) is q evaluated by engine e over ITS partition of the        *)
(* series on the query's own grid; coalesce concatenates.                  *)
(*                                                                         *)
(* Checked: for every assignment of the series to the engines (incl. empty *)
(* engines and groups split across engines) and every plan of the basket,  *)
(* the rewritten plan denotes, at every step, what the original plan       *)
(* denotes over the union (DistSound).  The module also emits the          *)
(* (plan, assignment) pairs as replay scenarios.                           *)
(***************************************************************************)
EXTENDS ScnLib, PromQLRef

CONSTANTS Tier, Seed, Mod, TickMs
Q == Tier = "quick"
Engines == IF Q THEN 1..2 ELSE 1..3
NSeries == IF Q THEN 4 ELSE 5

DistAggs == {"sum", "min", "max", "group", "count", "topk", "bottomk"}

\* ---- which subtrees are pushed down
RECURSIVE Pushable(_, _)
\* no binary expression and no non-distributive aggregation anywhere in the subtree
Pushable(pl, i) == LET n == pl[i] IN
  /\ n.op # "bin"
  /\ (n.op = "agg" => n.fn \in DistAggs)
  /\ \A k \in 1..Len(n.args) : Pushable(pl, n.args[k])
\* scalar-only subtrees (literals, time()) are not sent anywhere
RECURSIVE HasSelector(_, _)
HasSelector(pl, i) == pl[i].op \in {"sel", "rfn", "const"} \/ \E k \in 1..Len(pl[i].args) : HasSelector(pl, pl[i].args[k])

\* ---- data and partitions
Labels == << << <<"__name__","m">>, <<"a","x">>, <<"b","1">> >>, << <<"__name__","m">>, <<"a","x">>, <<"b","2">> >>,
             << <<"__name__","m">>, <<"a","y">>, <<"b","1">> >>, << <<"__name__","m">>, <<"a","y">>, <<"b","2">> >>,
             << <<"__name__","m">>, <<"a","z">> >> >>
\* series 2 ends early, series 3 goes stale, series 4 has a gap, series 5 starts late
SmpOf(j) == CASE j = 1 -> [i \in 1..10 |-> Smp(i - 1, "f", i)]
              [] j = 2 -> [i \in 1..4 |-> Smp(i - 1, "f", 10 * i)]
              [] j = 3 -> [i \in 1..10 |-> Smp(i - 1, IF i = 6 THEN "s" ELSE "f", 100 + i)]
              [] j = 4 -> [i \in 1..6 |-> Smp(IF i <= 3 THEN i - 1 ELSE i + 3, "f", 1000 + 7 * i)]
              [] j = 5 -> [i \in 1..5 |-> Smp(i + 4, "f", 3 * i)]
AllData == [j \in 1..NSeries |-> Series(Labels[j], SmpOf(j))]

VARIABLE g
Plans == <<
  <<Sel(<<Metric("m")>>)>>,
  <<Sel(<<Metric("m")>>), Agg("sum", TRUE, <<"a">>, <<1>>)>>,
  <<Sel(<<Metric("m")>>), Agg("count", TRUE, <<"a">>, <<1>>)>>,
  <<Sel(<<Metric("m")>>), Agg("max", FALSE, <<"b">>, <<1>>)>>,
  <<Sel(<<Metric("m")>>), Agg("min", TRUE, <<>>, <<1>>)>>,
  <<Sel(<<Metric("m")>>), Agg("group", TRUE, <<"b">>, <<1>>)>>,
  <<Sel(<<Metric("m")>>), Num(1), Agg("topk", TRUE, <<>>, <<2, 1>>)>>,
  <<Sel(<<Metric("m")>>), Num(2), Agg("bottomk", TRUE, <<"a">>, <<2, 1>>)>>,
  <<Sel(<<Metric("m")>>), Agg("avg", TRUE, <<"a">>, <<1>>)>>,
  <<Sel(<<Metric("m")>>), Fn("abs", <<1>>), Agg("sum", TRUE, <<"a">>, <<2>>)>>,
  <<Sel(<<Metric("m")>>), Agg("sum", TRUE, <<"a", "b">>, <<1>>), Agg("max", TRUE, <<"a">>, <<2>>)>>,
  <<Sel(<<Metric("m")>>), Agg("sum", TRUE, <<"a">>, <<1>>), Fn("abs", <<2>>)>>,
  <<Sel(<<Metric("m")>>), Agg("sum", TRUE, <<"a">>, <<1>>), Sel(<<Metric("m")>>), Agg("count", TRUE, <<"a">>, <<3>>), Bin("/", 2, 4)>>,
  <<Sel(<<Metric("m")>>), Agg("sum", TRUE, <<"a">>, <<1>>), Num(1), Bin("+", 2, 3)>>,
  <<RFn("sum_over_time", <<Metric("m")>>, 2, 0, "none", 0), Agg("sum", TRUE, <<"a">>, <<1>>)>>,
  <<RFn("count_over_time", <<Metric("m")>>, 3, 1, "none", 0)>>,
  <<Sel(<<Metric("m")>>), NegN(1)>>,
  <<Sel(<<Metric("m")>>), Paren(1), Agg("sum", TRUE, <<"a">>, <<2>>), Paren(3)>>,
  <<SelAt(<<Metric("m")>>, 0, "lit", 3), Agg("sum", TRUE, <<"a">>, <<1>>)>>,
  <<Sel(<<Metric("m")>>), Agg("stddev", TRUE, <<"a">>, <<1>>)>>,
  <<Sel(<<Metric("m"), Eq("a", "x")>>), Sel(<<Metric("m"), Eq("a", "y")>>), BinM("+", 1, 2, FALSE, "1:1", TRUE, <<"b">>, <<>>)>>,
  \* nests of aggregations (only the innermost is pushed down; count of counts is the distinct-count idiom)
  <<Sel(<<Metric("m")>>), Agg("count", TRUE, <<"b">>, <<1>>), Agg("count", TRUE, <<>>, <<2>>)>>,
  <<Sel(<<Metric("m")>>), Agg("count", TRUE, <<"a">>, <<1>>), Agg("count", FALSE, <<"a">>, <<2>>), Num(10), Bin("*", 3, 4)>>,
  <<Sel(<<Metric("m")>>), Agg("sum", TRUE, <<"b">>, <<1>>), Agg("sum", TRUE, <<>>, <<2>>)>>,
  <<Sel(<<Metric("m")>>), Agg("count", TRUE, <<"b">>, <<1>>), Agg("sum", TRUE, <<>>, <<2>>)>>,
  <<Sel(<<Metric("m")>>), Agg("min", TRUE, <<"a", "b">>, <<1>>), Agg("max", FALSE, <<"b">>, <<2>>), Agg("min", TRUE, <<>>, <<3>>)>>,
  <<Sel(<<Metric("m")>>), Num(1), Agg("topk", TRUE, <<"a">>, <<2, 1>>), Num(2), Agg("topk", TRUE, <<>>, <<4, 3>>)>>,
  <<Sel(<<Metric("m")>>), Agg("group", TRUE, <<"b">>, <<1>>), Agg("group", TRUE, <<>>, <<2>>), Agg("count", TRUE, <<>>, <<3>>)>>,
  <<Sel(<<Metric("m")>>), Agg("avg", TRUE, <<"b">>, <<1>>), Agg("count", TRUE, <<>>, <<2>>)>>,
  \* operands that select no series (every engine would answer them for itself), scalar(), selecting parameters
  <<Fn("time", <<>>), Fn("vector", <<1>>), Agg("sum", TRUE, <<>>, <<2>>)>>,
  <<Num(1), Fn("vector", <<1>>), Agg("count", TRUE, <<>>, <<2>>)>>,
  <<Sel(<<Metric("m")>>), Agg("sum", TRUE, <<>>, <<1>>), Fn("time", <<>>), Fn("vector", <<3>>), Agg("sum", TRUE, <<>>, <<4>>),
    BinM("-", 2, 5, FALSE, "1:1", TRUE, <<>>, <<>>)>>,
  <<Sel(<<Metric("m")>>), Agg("count", TRUE, <<"b">>, <<1>>), Fn("time", <<>>), Fn("vector", <<3>>), Agg("count", TRUE, <<>>, <<4>>),
    BinM("/", 2, 5, FALSE, "N:1", TRUE, <<>>, <<>>)>>,
  <<Sel(<<Metric("m")>>), Sel(<<Metric("m")>>), Agg("sum", TRUE, <<>>, <<2>>), Fn("scalar", <<3>>), Bin("*", 1, 4)>>,
  <<Sel(<<Metric("m")>>), Agg("count", TRUE, <<>>, <<1>>), Fn("scalar", <<2>>), Sel(<<Metric("m")>>), Agg("topk", TRUE, <<"a">>, <<3, 4>>)>>,
  <<Sel(<<Metric("m")>>), Agg("sum", TRUE, <<"a">>, <<1>>), Fn("time", <<>>), Bin("-", 2, 3)>> >>

Init == g \in [p : 1..Len(Plans), asg : [1..NSeries -> Engines], win : {"instant", "range"}]
Next == UNCHANGED g

Central(x) == Scn("dist", "C10", TickMs, AllData, Plans[x.p], IF x.win = "instant" THEN 5 ELSE 1, IF x.win = "instant" THEN 5 ELSE 9,
                  IF x.win = "instant" THEN 0 ELSE 1, 2, 0)
Part(x, e) == [Central(x) EXCEPT !.data = SelectSeq(AllData, LAMBDA d : \E j \in 1..NSeries : AllData[j] = d /\ x.asg[j] = e)]

\* ---- the rewritten plan as a plan over "const" nodes
GridSet(sc) == ToSet(Grid(sc))
Concat(x, i, t) == \* coalesce(remote_e(subtree i)) at step t
  LET rs == [e \in Engines |-> Eval(Part(x, e), i, t)]
      RECURSIVE Cat(_)
      Cat(e) == IF e = 0 THEN <<>> ELSE Cat(e - 1) \o [y \in 1..Len(rs[e].vec) |-> [ls |-> rs[e].vec[y].ls, val |-> rs[e].vec[y].val]]
  IN Res(UNION {rs[e].why : e \in Engines}, \E e \in Engines : rs[e].unk, Cat(Cardinality(Engines)))
ConstNode(x, i) == [Blank("const") EXCEPT !.fn = "remote"] @@ [tbl |-> [t \in GridSet(Central(x)) |-> Concat(x, i, t)]]

\* The optimizer's bottom-up traversal (logicalplan.traverseBottomUp + the transform of
\* DistributedExecutionOptimizer), on the plan encoding.  R(plan, stop).
R(pl, stop) == [pl |-> pl, stop |-> stop]
IsDistributive(pl, j) == pl[j].op # "bin" /\ (pl[j].op = "agg" => pl[j].fn \in DistAggs)

Transform(x, pl, parent, i) ==
  LET n == pl[i] IN
  IF ~IsDistributive(pl, i) THEN R(pl, TRUE)
  \* an expression that selects no series (time(), vector(1), ...) is the same everywhere: it is not sent anywhere on
  \* its own, the traversal goes on above it
  ELSE IF ~HasSelector(pl, i) THEN R(pl, FALSE)
  ELSE IF n.op = "agg" THEN
       \* agg'(coalesce(remote(agg ...))): the operand slot becomes the concatenated partial results
       LET k == n.args[Len(n.args)]
           pl2 == [pl EXCEPT ![k] = ConstNode(x, i)]
       IN R([pl2 EXCEPT ![i].fn = IF n.fn = "count" THEN "sum" ELSE n.fn], TRUE)
  ELSE IF parent # 0 /\ IsDistributive(pl, parent) THEN R(pl, FALSE)
  ELSE R([pl EXCEPT ![i] = ConstNode(x, i)], TRUE)

RECURSIVE TB(_, _, _, _)
TB(x, pl, parent, i) ==
  LET n == pl[i] IN
  CASE n.op \in {"sel", "rfn"} -> Transform(x, pl, parent, i)
    \* (a parameter that selects series is an expression of its own: topk(scalar(x), y))
    [] n.op = "agg" -> LET r == TB(x, pl, i, n.args[Len(n.args)]) IN
                       IF r.stop THEN r
                       ELSE LET r2 == IF Len(n.args) = 2 /\ HasSelector(r.pl, n.args[1]) THEN TB(x, r.pl, i, n.args[1]) ELSE r
                            IN IF r2.stop THEN r2 ELSE Transform(x, r2.pl, parent, i)
    \* scalar() depends on the number of series in the whole data set: nothing below it is rewritten on its own
    [] n.op = "fn" /\ n.fn = "scalar" -> R(pl, TRUE)
    [] n.op = "fn" ->
         LET RECURSIVE Args(_, _)
             Args(r, k) == IF k > Len(n.args) \/ r.stop THEN r ELSE Args(TB(x, r.pl, i, n.args[k]), k + 1)
             r == Args(R(pl, FALSE), 1)
         IN IF r.stop THEN r ELSE Transform(x, r.pl, parent, i)
    [] n.op = "bin" ->
         LET l == TB(x, pl, i, n.args[1])
             r == TB(x, l.pl, i, n.args[2])
         IN IF l.stop \/ r.stop THEN R(r.pl, TRUE) ELSE Transform(x, r.pl, parent, i)
    [] n.op \in {"neg", "paren"} -> TB(x, pl, i, n.args[1])
    [] OTHER -> R(pl, TRUE)

DistPlan(x) == TB(x, Plans[x.p], 0, Len(Plans[x.p])).pl

\* two step results denote the same vector (OPAQUE values match anything)
SameVec(a, b) ==
  /\ (a.why = {}) = (b.why = {})
  /\ (a.why = {} /\ ~a.unk /\ ~b.unk) =>
       /\ Len(a.vec) = Len(b.vec)
       /\ \A y \in 1..Len(a.vec) : \E z \in 1..Len(b.vec) :
            a.vec[y].ls = b.vec[z].ls /\ (a.vec[y].val.k = "op" \/ b.vec[z].val.k = "op" \/ a.vec[y].val = b.vec[z].val)

DistSound ==
  LET c == Central(g)  d == [c EXCEPT !.plan = DistPlan(g)]  gr == Grid(c) IN
  \A i \in 1..Len(gr) : SameVec(Eval(c, Len(c.plan), gr[i]), Eval(d, Len(d.plan), gr[i]))

\* ---- emission: the central scenario + the assignment (cfg.part[j] = engine of series j)
Hash(x) == x.p * 7 + (IF x.win = "instant" THEN 3 ELSE 5) + FoldSet(LAMBDA j, acc : acc * 3 + x.asg[j], 0, 1..NSeries) * 11
ScnOf(x) == Central(x) @@ [cfg |-> [part |-> [j \in 1..NSeries |-> x.asg[j]], engines |-> Cardinality(Engines)]]
EmitDist == IF Pick(Hash(g), 0, Mod) = Seed % Mod THEN Emit(ScnOf(g)) ELSE TRUE
=============================================================================
