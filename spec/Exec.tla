-------------------------------- MODULE Exec --------------------------------
(***************************************************************************)
(* Goroutines, channels and the context of one query execution (C14, C15,  *)
(* C13 at the design level), implementation shaped.  The plan is the       *)
(* engine's basic exchange topology: Exec's loop over a coalesce operator  *)
(* over S concurrency operators (buffered channel of capacity Cap, a pull  *)
(* goroutine, a drain goroutine that empties the buffer once the context   *)
(* is cancelled), each over a leaf that yields K batches and then the end  *)
(* of its stream.  Every pc value is a blocking point or a context check   *)
(* of the code:                                                            *)
(*   Main   check  (select ctx.Done / default in Exec's loop)              *)
(*          fan    (coalesce.Next starts one goroutine per child)          *)
(*          join   (wg.Wait, error channel, merge)                         *)
(*          after  (after the loop: the context is looked at once more -   *)
(*                  the fix; with Recheck = FALSE the pinned behaviour)    *)
(*   Fan[s] ctx    (concurrencyOperator.Next: ctx check, once.Do(start))   *)
(*          recv   (receive from the buffer)                               *)
(*   Pull[s] top   (ctx check in the pull loop)    read (leaf.Next: ctx    *)
(*          check, storage read - may fail)   send (blocking send)  close  *)
(*   Drain[s] wait (<-ctx.Done)   drain (for range buffer)                 *)
(* All shards read one shared series selector (execution/storage/            *)
(* series_selector.go): the first pull goroutine that reaches it runs       *)
(* loadSeries inside sync.Once - open a querier, Select, close the querier  *)
(* (defer) - while the others block on the Once; if loading fails the Once  *)
(* is spent: only the loading shard sees the error, the others see an empty *)
(* series list and end their streams normally.  Load pcs: lopen (about to   *)
(* call Querier()), lsel (querier open, Select / series set), lclose.       *)
(* Environment: Cancel (context cancelled / deadline / Query.Cancel), at   *)
(* any time before Exec returns; StorageFault: up to Faults storage reads   *)
(* fail (error, or a recovered panic) at nondeterministically chosen reads. *)
(***************************************************************************)
EXTENDS Integers, Sequences, FiniteSets, TLC

CONSTANTS S,        \* number of shards (concurrency operators below the coalesce)
          K,        \* batches per leaf
          Cap,      \* buffer capacity (2 in the code)
          Recheck,  \* TRUE: Exec looks at the context after its loop (the repaired code)
          Faults,   \* how many storage reads may fail (0, 1, 2: two shards failing in the same round)
          JoinChecksEndFirst,  \* FALSE: coalesce.Next reads the error channel before deciding that the stream ended (the code);
                               \* TRUE: the other order (non-vacuity control for ErrorSurfaces with several failing shards)
          RecvSelectsCtx  \* FALSE: concurrencyOperator.Next blocks on the buffer (the code); TRUE: it also
                          \* selects on ctx.Done (a plausible change - used as the non-vacuity control for the querier clauses)

Shards == 1..S
VARIABLES ctx, mainPc, got, result, fanPc, fanRes, started, buf, closed, pullPc, pullMsg, produced, drainPc, faultLeft, faultFired,
          load, openQ, qhist
vars == <<ctx, mainPc, got, result, fanPc, fanRes, started, buf, closed, pullPc, pullMsg, produced, drainPc, faultLeft, faultFired, load, openQ, qhist>>

Init == /\ ctx = "live" /\ mainPc = "check" /\ got = 0 /\ result = "none"
        /\ fanPc = [s \in Shards |-> "idle"] /\ fanRes = [s \in Shards |-> "none"]
        /\ started = [s \in Shards |-> FALSE] /\ buf = [s \in Shards |-> <<>>] /\ closed = [s \in Shards |-> FALSE]
        /\ pullPc = [s \in Shards |-> "idle"] /\ pullMsg = [s \in Shards |-> "none"] /\ produced = [s \in Shards |-> 0]
        /\ drainPc = [s \in Shards |-> "idle"] /\ faultLeft = Faults /\ faultFired = FALSE
        /\ load = "no" /\ openQ = 0 /\ qhist = [opened |-> 0, closed |-> 0, late |-> FALSE]

\* ------------------------------------------------------------------ environment
Cancel == /\ ctx = "live" /\ mainPc # "done" /\ ctx' = "cancelled"
          /\ UNCHANGED <<mainPc, got, result, fanPc, fanRes, started, buf, closed, pullPc, pullMsg, produced, drainPc, faultLeft, faultFired, load, openQ, qhist>>

\* ------------------------------------------------------------------ Main (Exec)
MainCheck == /\ mainPc = "check"
             /\ IF ctx = "cancelled" THEN mainPc' = "ret" /\ result' = "ctxerr" ELSE mainPc' = "fan" /\ UNCHANGED result
             /\ UNCHANGED <<ctx, got, fanPc, fanRes, started, buf, closed, pullPc, pullMsg, produced, drainPc, faultLeft, faultFired, load, openQ, qhist>>
\* coalesce.Next: ctx check, then one goroutine per child
MainFan == /\ mainPc = "fan"
           /\ IF ctx = "cancelled" THEN mainPc' = "ret" /\ result' = "ctxerr" /\ UNCHANGED <<fanPc, fanRes>>
              ELSE /\ mainPc' = "join" /\ fanPc' = [s \in Shards |-> "ctx"] /\ fanRes' = [s \in Shards |-> "none"] /\ UNCHANGED result
           /\ UNCHANGED <<ctx, got, started, buf, closed, pullPc, pullMsg, produced, drainPc, faultLeft, faultFired, load, openQ, qhist>>
MainJoin == /\ mainPc = "join" /\ \A s \in Shards : fanPc[s] = "done"
            /\ LET anyErr == \E s \in Shards : fanRes[s] \in {"err", "ctxerr"}
                   noBatch == \A s \in Shards : fanRes[s] # "batch"
                   errRes == IF \E s \in Shards : fanRes[s] = "err" THEN "err" ELSE "ctxerr"
               IN IF JoinChecksEndFirst
                    THEN \* control: "nothing was merged" is looked at before the error channel
                         IF noBatch THEN mainPc' = "after" /\ UNCHANGED <<got, result>>
                         ELSE IF anyErr THEN mainPc' = "ret" /\ result' = errRes /\ UNCHANGED got
                         ELSE mainPc' = "check" /\ got' = got + 1 /\ UNCHANGED result
                    ELSE IF anyErr THEN mainPc' = "ret" /\ result' = errRes /\ UNCHANGED got
                         ELSE IF noBatch THEN mainPc' = "after" /\ UNCHANGED <<got, result>>
                         ELSE \* a merged batch (of the children that delivered one) is assembled
                              mainPc' = "check" /\ got' = got + 1 /\ UNCHANGED result
            /\ fanPc' = [s \in Shards |-> "idle"]
            /\ UNCHANGED <<ctx, fanRes, started, buf, closed, pullPc, pullMsg, produced, drainPc, faultLeft, faultFired, load, openQ, qhist>>
MainAfter == /\ mainPc = "after"
             /\ mainPc' = "ret"
             /\ result' = IF Recheck /\ ctx = "cancelled" THEN "ctxerr" ELSE IF got = K THEN "ok" ELSE "partial-ok"
             /\ UNCHANGED <<ctx, got, fanPc, fanRes, started, buf, closed, pullPc, pullMsg, produced, drainPc, faultLeft, faultFired, load, openQ, qhist>>
MainRet == /\ mainPc = "ret" /\ mainPc' = "done" /\ ctx' = "cancelled"       \* defer cancel()
           /\ UNCHANGED <<got, result, fanPc, fanRes, started, buf, closed, pullPc, pullMsg, produced, drainPc, faultLeft, faultFired, load, openQ, qhist>>

\* ------------------------------------------------------------------ Fan[s] (a coalesce child call = concurrencyOperator.Next)
FanCtx(s) == /\ fanPc[s] = "ctx"
             /\ IF ctx = "cancelled" THEN fanPc' = [fanPc EXCEPT ![s] = "done"] /\ fanRes' = [fanRes EXCEPT ![s] = "ctxerr"] /\ UNCHANGED <<started, pullPc, drainPc>>
                ELSE /\ fanPc' = [fanPc EXCEPT ![s] = "recv"] /\ UNCHANGED fanRes
                     /\ IF started[s] THEN UNCHANGED <<started, pullPc, drainPc>>
                        ELSE /\ started' = [started EXCEPT ![s] = TRUE]
                             /\ pullPc' = [pullPc EXCEPT ![s] = "top"] /\ drainPc' = [drainPc EXCEPT ![s] = "wait"]
             /\ UNCHANGED <<ctx, mainPc, got, result, buf, closed, pullMsg, produced, faultLeft, faultFired, load, openQ, qhist>>
FanRecv(s) == /\ fanPc[s] = "recv"
              /\ \/ /\ buf[s] # <<>>
                    /\ buf' = [buf EXCEPT ![s] = Tail(@)]
                    /\ fanRes' = [fanRes EXCEPT ![s] = Head(buf[s])]
                 \/ /\ buf[s] = <<>> /\ closed[s]
                    /\ fanRes' = [fanRes EXCEPT ![s] = "end"] /\ UNCHANGED buf
                 \/ /\ RecvSelectsCtx /\ ctx = "cancelled"
                    /\ fanRes' = [fanRes EXCEPT ![s] = "ctxerr"] /\ UNCHANGED buf
              /\ fanPc' = [fanPc EXCEPT ![s] = "done"]
              /\ UNCHANGED <<ctx, mainPc, got, result, started, closed, pullPc, pullMsg, produced, drainPc, faultLeft, faultFired, load, openQ, qhist>>

\* ------------------------------------------------------------------ Pull[s]
PullTop(s) == /\ pullPc[s] = "top"
              /\ IF ctx = "cancelled" THEN pullPc' = [pullPc EXCEPT ![s] = "send"] /\ pullMsg' = [pullMsg EXCEPT ![s] = "ctxerr"]
                 ELSE pullPc' = [pullPc EXCEPT ![s] = "read"] /\ UNCHANGED pullMsg
              /\ UNCHANGED <<ctx, mainPc, got, result, fanPc, fanRes, started, buf, closed, produced, drainPc, faultLeft, faultFired, load, openQ, qhist>>
\* leaf.Next: ctx check, then (first call) the shared selector's Once, then the storage read (which may fail)
PullRead(s) == /\ pullPc[s] = "read"
               /\ \/ /\ ctx = "cancelled"
                     /\ pullPc' = [pullPc EXCEPT ![s] = "send"] /\ pullMsg' = [pullMsg EXCEPT ![s] = "ctxerr"] /\ UNCHANGED <<produced, faultLeft, faultFired, load>>
                  \/ /\ ctx = "live" /\ load = "no"                               \* this shard wins the Once
                     /\ load' = "loading" /\ pullPc' = [pullPc EXCEPT ![s] = "lopen"] /\ UNCHANGED <<pullMsg, produced, faultLeft, faultFired>>
                  \/ /\ ctx = "live" /\ load = "failed"                           \* Once spent by a failed load: empty series list, no error
                     /\ pullPc' = [pullPc EXCEPT ![s] = "close"] /\ UNCHANGED <<pullMsg, produced, faultLeft, faultFired, load>>
                  \/ /\ ctx = "live" /\ load = "done" /\ produced[s] = K
                     /\ pullPc' = [pullPc EXCEPT ![s] = "close"] /\ UNCHANGED <<pullMsg, produced, faultLeft, faultFired, load>>
                  \/ /\ ctx = "live" /\ load = "done" /\ produced[s] < K
                     /\ pullPc' = [pullPc EXCEPT ![s] = "send"] /\ pullMsg' = [pullMsg EXCEPT ![s] = "batch"]
                     /\ produced' = [produced EXCEPT ![s] = @ + 1] /\ UNCHANGED <<faultLeft, faultFired, load>>
                  \/ /\ ctx = "live" /\ load = "done" /\ produced[s] < K /\ faultLeft > 0      \* StorageFault at this read (sample iterator)
                     /\ pullPc' = [pullPc EXCEPT ![s] = "send"] /\ pullMsg' = [pullMsg EXCEPT ![s] = "err"]
                     /\ faultLeft' = faultLeft - 1 /\ faultFired' = TRUE /\ UNCHANGED <<produced, load>>
                  \* load = "loading" by another shard: blocked on the Once (no disjunct)
               /\ UNCHANGED <<ctx, mainPc, got, result, fanPc, fanRes, started, buf, closed, drainPc, openQ, qhist>>
\* loadSeries, three steps: storage.Querier() [may fail: nothing was opened], Select + series set [may fail], deferred Close
LoadOpen(s) == /\ pullPc[s] = "lopen"
               /\ \/ /\ pullPc' = [pullPc EXCEPT ![s] = "lsel"] /\ openQ' = openQ + 1
                     /\ qhist' = [qhist EXCEPT !.opened = @ + 1, !.late = @ \/ mainPc = "done"]
                     /\ UNCHANGED <<pullMsg, faultLeft, faultFired, load>>
                  \/ /\ faultLeft > 0 /\ faultLeft' = faultLeft - 1 /\ faultFired' = TRUE /\ load' = "failed"
                     /\ pullPc' = [pullPc EXCEPT ![s] = "send"] /\ pullMsg' = [pullMsg EXCEPT ![s] = "err"] /\ UNCHANGED <<openQ, qhist>>
               /\ UNCHANGED <<ctx, mainPc, got, result, fanPc, fanRes, started, buf, closed, produced, drainPc>>
LoadSelect(s) == /\ pullPc[s] = "lsel"
                 /\ \/ /\ pullMsg' = [pullMsg EXCEPT ![s] = "none"] /\ UNCHANGED <<faultLeft, faultFired>>
                    \/ /\ faultLeft > 0 /\ faultLeft' = faultLeft - 1 /\ faultFired' = TRUE /\ pullMsg' = [pullMsg EXCEPT ![s] = "err"]
                 /\ pullPc' = [pullPc EXCEPT ![s] = "lclose"]
                 /\ UNCHANGED <<ctx, mainPc, got, result, fanPc, fanRes, started, buf, closed, produced, drainPc, load, openQ, qhist>>
LoadClose(s) == /\ pullPc[s] = "lclose"
                /\ openQ' = openQ - 1
                /\ qhist' = [qhist EXCEPT !.closed = @ + 1, !.late = @ \/ mainPc = "done"]
                /\ IF pullMsg[s] = "err" THEN load' = "failed" /\ pullPc' = [pullPc EXCEPT ![s] = "send"]
                   ELSE load' = "done" /\ pullPc' = [pullPc EXCEPT ![s] = "read"]
                /\ UNCHANGED <<ctx, mainPc, got, result, fanPc, fanRes, started, buf, closed, pullMsg, produced, drainPc, faultLeft, faultFired>>
PullSend(s) == /\ pullPc[s] = "send" /\ Len(buf[s]) < Cap
               /\ buf' = [buf EXCEPT ![s] = Append(@, pullMsg[s])]
               /\ pullPc' = [pullPc EXCEPT ![s] = IF pullMsg[s] = "batch" THEN "top" ELSE "close"]
               /\ UNCHANGED <<ctx, mainPc, got, result, fanPc, fanRes, started, closed, pullMsg, produced, drainPc, faultLeft, faultFired, load, openQ, qhist>>
PullClose(s) == /\ pullPc[s] = "close" /\ closed' = [closed EXCEPT ![s] = TRUE] /\ pullPc' = [pullPc EXCEPT ![s] = "exit"]
                /\ UNCHANGED <<ctx, mainPc, got, result, fanPc, fanRes, started, buf, pullMsg, produced, drainPc, faultLeft, faultFired, load, openQ, qhist>>

\* ------------------------------------------------------------------ Drain[s]
DrainWake(s) == /\ drainPc[s] = "wait" /\ ctx = "cancelled" /\ drainPc' = [drainPc EXCEPT ![s] = "drain"]
                /\ UNCHANGED <<ctx, mainPc, got, result, fanPc, fanRes, started, buf, closed, pullPc, pullMsg, produced, faultLeft, faultFired, load, openQ, qhist>>
DrainStep(s) == /\ drainPc[s] = "drain"
                /\ \/ buf[s] # <<>> /\ buf' = [buf EXCEPT ![s] = Tail(@)] /\ UNCHANGED drainPc
                   \/ buf[s] = <<>> /\ closed[s] /\ drainPc' = [drainPc EXCEPT ![s] = "exit"] /\ UNCHANGED buf
                /\ UNCHANGED <<ctx, mainPc, got, result, fanPc, fanRes, started, closed, pullPc, pullMsg, produced, faultLeft, faultFired, load, openQ, qhist>>

Thread == MainCheck \/ MainFan \/ MainJoin \/ MainAfter \/ MainRet
          \/ \E s \in Shards : FanCtx(s) \/ FanRecv(s) \/ PullTop(s) \/ PullRead(s) \/ LoadOpen(s) \/ LoadSelect(s) \/ LoadClose(s) \/ PullSend(s) \/ PullClose(s) \/ DrainWake(s) \/ DrainStep(s)
\* the only terminal states: Exec has returned and every goroutine of the query has exited
Finished == mainPc = "done" /\ \A s \in Shards : ~started[s] \/ (pullPc[s] = "exit" /\ drainPc[s] = "exit")
Next == Cancel \/ Thread \/ (Finished /\ UNCHANGED vars)
Fairness == /\ WF_vars(MainCheck) /\ WF_vars(MainFan) /\ WF_vars(MainJoin) /\ WF_vars(MainAfter) /\ WF_vars(MainRet)
            /\ \A s \in Shards : /\ WF_vars(FanCtx(s)) /\ WF_vars(FanRecv(s)) /\ WF_vars(PullTop(s)) /\ WF_vars(PullRead(s)) /\ WF_vars(LoadOpen(s)) /\ WF_vars(LoadSelect(s)) /\ WF_vars(LoadClose(s))
                                 /\ WF_vars(PullSend(s)) /\ WF_vars(PullClose(s)) /\ WF_vars(DrainWake(s)) /\ WF_vars(DrainStep(s))
Spec == Init /\ [][Next]_vars /\ Fairness

\* ------------------------------------------------------------------ properties
TypeOK == \A s \in Shards : Len(buf[s]) <= Cap
\* C14: never a successful partial result
NoPartialSuccess == result # "partial-ok"
\* C14 + C01: a success is the complete result, and only without a storage failure (C15)
SuccessIsComplete == result = "ok" => got = K /\ ~faultFired
\* C15: a storage failure that fired is reported (as that error, or as the context's error if a cancellation won)
ErrorSurfaces == (mainPc = "done" /\ faultFired) => result \in {"err", "ctxerr"}
\* C17: at most one querier per selector, opened and closed by the same goroutine, and none is open - or is opened or
\* closed - once Exec has returned; every querier that was opened is closed exactly once
QuerierClosedAtReturn == mainPc = "done" => openQ = 0 /\ ~qhist.late
QuerierBalanced == openQ \in {0, 1} /\ qhist.opened = qhist.closed + openQ /\ qhist.opened <= 1
\* C15 with the spent Once: the shards that see an empty list after a failed load never turn the failure into a success
FailedLoadNeverSucceeds == (mainPc = "done" /\ load = "failed") => result \in {"err", "ctxerr"}
\* C14: Exec always returns; afterwards every goroutine started for the query exits
ExecReturns == <>(mainPc = "done")
GoroutinesExit == <>[](mainPc = "done" /\ \A s \in Shards : started[s] => (pullPc[s] = "exit" /\ drainPc[s] = "exit"))
=============================================================================
