------------------------------- MODULE ScnLib -------------------------------
(***************************************************************************)
(* Builders for scenarios in the encoding shared by the generators, the    *)
(* replayer (harness/scn) and PromQLRef: uniform node records, matchers,   *)
(* series, and the emission of a finished scenario as one JSON line.       *)
(***************************************************************************)
EXTENDS Integers, Sequences, FiniteSets, TLC, Json, SequencesExt, FiniteSetsExt

Blank(op) == [op |-> op, fn |-> "", m |-> <<>>, off |-> 0, atk |-> "none", at |-> 0, rng |-> 0,
              args |-> <<>>, by |-> FALSE, grp |-> <<>>, bool |-> FALSE, card |-> "1:1", on |-> FALSE,
              ml |-> <<>>, inc |-> <<>>, v |-> 0, vs |-> ""]

Eq(n, v)      == [n |-> n, t |-> "=",  v |-> v, acc |-> <<>>]
Neq(n, v)     == [n |-> n, t |-> "!=", v |-> v, acc |-> <<>>]
Re(n, v, acc) == [n |-> n, t |-> "=~", v |-> v, acc |-> acc]
NRe(n, v, acc) == [n |-> n, t |-> "!~", v |-> v, acc |-> acc]
Metric(name)  == Eq("__name__", name)

Sel(ms)              == [Blank("sel") EXCEPT !.m = ms]
SelOff(ms, off)      == [Blank("sel") EXCEPT !.m = ms, !.off = off]
SelAt(ms, off, atk, at) == [Blank("sel") EXCEPT !.m = ms, !.off = off, !.atk = atk, !.at = at]
RFn(fn, ms, rng, off, atk, at) == [Blank("rfn") EXCEPT !.fn = fn, !.m = ms, !.rng = rng, !.off = off, !.atk = atk, !.at = at]
Num(v)               == [Blank("num") EXCEPT !.v = v]
NumS(s)              == [Blank("num") EXCEPT !.vs = s]
Fn(fn, args)         == [Blank("fn") EXCEPT !.fn = fn, !.args = args]
NegN(c)              == [Blank("neg") EXCEPT !.args = <<c>>]
Paren(c)             == [Blank("paren") EXCEPT !.args = <<c>>]
\* unary plus: `+x` evaluates to x (a "paren" node whose fn is "+")
Pos(c)               == [Blank("paren") EXCEPT !.args = <<c>>, !.fn = "+"]
Agg(fn, by, grp, args) == [Blank("agg") EXCEPT !.fn = fn, !.by = by, !.grp = grp, !.args = args]
Bin(fn, l, r)        == [Blank("bin") EXCEPT !.fn = fn, !.args = <<l, r>>]
BinM(fn, l, r, bool, card, on, ml, inc) ==
   [Blank("bin") EXCEPT !.fn = fn, !.args = <<l, r>>, !.bool = bool, !.card = card, !.on = on, !.ml = ml, !.inc = inc]

\* plan composition: children keep their own indices; a second operand is shifted
Shift(p, k) == [i \in 1..Len(p) |-> [p[i] EXCEPT !.args = [j \in 1..Len(p[i].args) |-> p[i].args[j] + k]]]
\* unary node over plan p:  mk(child index)
Over(p, Mk(_)) == p \o <<Mk(Len(p))>>
\* binary node over plans p and q:  mk(left index, right index)
Join(p, q, Mk(_, _)) == p \o Shift(q, Len(p)) \o <<Mk(Len(p), Len(p) + Len(q))>>

Smp(t, k, v) == [t |-> t, k |-> k, v |-> v]
Series(ls, smp) == [ls |-> ls, smp |-> smp]      \* ls: sequence of <<name, value>>

Scn(id, fam, tickms, data, plan, start, end, step, lb, qlb) ==
  [id |-> id, fam |-> fam, tickms |-> tickms, data |-> data, plan |-> plan,
   start |-> start, end |-> end, step |-> step, lb |-> lb, qlb |-> qlb]

Emit(sc) == PrintT(<<"SCN", ToJson(sc)>>)

\* ---- well-mixed hashing (TLC integers are 32 bit: every intermediate value stays below 2^31).
\* Generators derive the choices that are not dimensions of their state space (which function, operator,
\* grouping, parameter ... a scenario uses, and whether it is emitted) from a structural hash of the scenario.
\* Pick makes those choices independent of each other (salt) and of the scenario's dimensions, and lets the
\* seed move them: with linear hashes some (function, range) or (operator, matching) pairs never occurred.
MixP == 46337
Mix1(h) == (((h % MixP) * 31337) + 12345 + ((h \div MixP) % MixP) * 7) % MixP
Mix(h) == Mix1(Mix1(Mix1(h) + 17) * 3 + 1)
Pick(h, salt, n) == Mix(h + salt * 1009) % n
=============================================================================
