------------------------------ MODULE Gen_Agg -------------------------------
(***************************************************************************)
(* C04 scenario generator: aggregations.  Three or four series over the    *)
(* label universe {__name__, a, b} (labels absent on some series, equal    *)
(* label sets on two metrics), every presence history of the first series  *)
(* over a 4-tick period (float / staleness marker / nothing = carried by   *)
(* lookback) crossed with a pattern list for the others, repeated over 4   *)
(* or 12 or 23 steps (groups appearing, vanishing, empty steps, batches of *)
(* 10 steps crossed) x aggregator x by/without x grouping list x parameter *)
(* (literal, per-step scalar(p), NaN, negative, zero, > group size, 1e300).*)
(* Values 2^j*(u+1) are pairwise distinct within a step, so sums identify  *)
(* the members and topk has no ties.                                       *)
(***************************************************************************)
EXTENDS ScnLib, PromQLRef

CONSTANTS Tier, Seed, Mod, TickMs

Q == Tier = "quick"
Period == 4
Kinds == {"f", "s", "-"}
Pat1 == [0..(Period - 1) -> Kinds]
Pat2 == IF Q THEN {<<"f","f","f","f">>, <<"-","f","s","-">>, <<"f","s","-","f">>}
             ELSE {<<"f","f","f","f">>, <<"-","f","s","-">>, <<"f","s","-","f">>, <<"-","-","-","-">>, <<"s","f","f","s">>, <<"f","-","-","-">>}
Pat3 == IF Q THEN {<<"f","f","f","f">>, <<"-","-","f","s">>} ELSE {<<"f","f","f","f">>, <<"-","-","f","s">>, <<"s","-","f","-">>}
\* 14 steps: steps 10..13 come in a second batch of 10 - whatever the engine keeps per position of a batch is used again,
\* after a step with a NaN / Inf member (tick 2) by a step without one (tick 12)
NStepsSet == IF Q THEN {4, 14} ELSE {4, 14, 23}
Datasets == {"ab", "absent", "twometrics"}
Specials == IF Q THEN {"none", "nan", "pinf"} ELSE {"none", "nan", "pinf", "mixinf"}

\* label sets of the (up to 4) series of a dataset
LSOf(ds) ==
  CASE ds = "ab" -> << << <<"__name__","m">>, <<"a","x">>, <<"b","1">> >>, << <<"__name__","m">>, <<"a","x">>, <<"b","2">> >>,
                       << <<"__name__","m">>, <<"a","y">>, <<"b","1">> >> >>
    [] ds = "absent" -> << << <<"__name__","m">>, <<"a","x">> >>, << <<"__name__","m">>, <<"a","x">>, <<"b","2">> >>,
                           << <<"__name__","m">>, <<"b","2">> >> >>
    [] ds = "twometrics" -> << << <<"__name__","m">>, <<"a","x">> >>, << <<"__name__","n">>, <<"a","x">> >>,
                               << <<"__name__","n">>, <<"a","y">>, <<"Z","q">> >> >>

Aggs == <<"sum", "min", "max", "count", "group", "avg", "stddev", "stdvar", "quantile", "topk", "bottomk", "sum", "count", "topk">>
\* grouping modes: [by, grp]
Grps == << [by |-> TRUE, grp |-> <<>>], [by |-> TRUE, grp |-> <<"a">>], [by |-> TRUE, grp |-> <<"a", "b">>],
           [by |-> TRUE, grp |-> <<"__name__">>], [by |-> TRUE, grp |-> <<"c">>], [by |-> TRUE, grp |-> <<"b", "a">>],
           [by |-> FALSE, grp |-> <<>>], [by |-> FALSE, grp |-> <<"a">>], [by |-> FALSE, grp |-> <<"b">>],
           [by |-> FALSE, grp |-> <<"a", "b">>], [by |-> FALSE, grp |-> <<"__name__">>], [by |-> FALSE, grp |-> <<"c", "Z">>] >>
\* parameters: [kind, v]; kind lit = integer literal, str = literal text, ser = scalar(p) with p varying per tick
Params == << [k |-> "lit", v |-> 1, s |-> ""], [k |-> "lit", v |-> 2, s |-> ""], [k |-> "lit", v |-> 0, s |-> ""],
             [k |-> "lit", v |-> -1, s |-> ""], [k |-> "lit", v |-> 5, s |-> ""], [k |-> "str", v |-> 0, s |-> "NaN"],
             [k |-> "str", v |-> 0, s |-> "1e300"], [k |-> "ser", v |-> 0, s |-> ""], [k |-> "ser", v |-> 0, s |-> ""],
             [k |-> "str", v |-> 0, s |-> "0.5"], [k |-> "str", v |-> 0, s |-> "Inf"],
             \* huge but convertible k (the reference clamps it to the input size); a parameter that is NaN exactly
             \* where the operand is empty (scalar(sum(operand))): the reference still fails those steps
             [k |-> "str", v |-> 0, s |-> "1e18"], [k |-> "str", v |-> 0, s |-> "100000000000"], [k |-> "self", v |-> 0, s |-> ""],
             [k |-> "self", v |-> 0, s |-> ""], [k |-> "lit", v |-> 0, s |-> ""] >>

VARIABLE g
Init == g \in [ds : Datasets, p1 : Pat1, p2 : Pat2, p3 : Pat3, n : NStepsSet, sp : Specials]
Next == UNCHANGED g

PatOf(x, j) == IF j = 1 THEN [u \in 1..Period |-> x.p1[u - 1]] ELSE IF j = 2 THEN x.p2 ELSE x.p3
SpecialAt(x, j, u) == \* special values replace the float of series 1 at ticks = 2 mod 4, series 3 at 1 mod 4
  CASE x.sp = "nan" /\ j = 1 /\ u % Period = 2 -> "nan"
    [] x.sp = "pinf" /\ j = 1 /\ u % Period = 2 -> "pinf"
    [] x.sp = "mixinf" /\ j = 1 /\ u % Period = 2 -> "pinf"
    [] x.sp = "mixinf" /\ j = 3 /\ u % Period = 2 -> "ninf"
    [] OTHER -> "f"
SmpOf(x, j) == LET ticks == SelectSeq([u \in 1..x.n |-> u - 1], LAMBDA u : PatOf(x, j)[(u % Period) + 1] # "-")
               IN [i \in 1..Len(ticks) |->
                     LET u == ticks[i] k == PatOf(x, j)[(u % Period) + 1] IN
                     Smp(u, IF k = "s" THEN "s" ELSE SpecialAt(x, j, u), (2 ^ (j - 1)) * ((u % 7) + 1))]
ParamSeries(x) == Series(<< <<"__name__", "p">> >>, [u \in 1..x.n |-> Smp(u - 1, "f", (u + 1) % 3)])
Data(x) == [j \in 1..3 |-> Series(LSOf(x.ds)[j], SmpOf(x, j))] \o <<ParamSeries(x)>>

Hash(x) == (x.n * 7 + (IF x.ds = "ab" THEN 1 ELSE IF x.ds = "absent" THEN 2 ELSE 3) * 11
            + (IF x.sp = "none" THEN 0 ELSE IF x.sp = "nan" THEN 1 ELSE IF x.sp = "pinf" THEN 2 ELSE 3) * 13
            + FoldSet(LAMBDA u, acc : acc + (IF x.p1[u] = "-" THEN 0 ELSE IF x.p1[u] = "f" THEN u + 1 ELSE 5 * (u + 1)), 0, 0..(Period - 1)) * 17
            + (IF x.p2[1] = "f" THEN 1 ELSE 2) * 19 + (IF x.p2[2] = "f" THEN 1 ELSE 2) * 23 + (IF x.p3[1] = "f" THEN 3 ELSE 4) * 29
            + (IF x.p2[4] = "f" THEN 1 ELSE IF x.p2[4] = "s" THEN 2 ELSE 3) * 31 + (IF x.p3[3] = "f" THEN 1 ELSE 2) * 37)
HS(x) == Hash(x) + (Seed % 997) * 131
AggOf(x) == Aggs[Pick(HS(x), 1, Len(Aggs)) + 1]
GrpOf(x) == Grps[Pick(HS(x), 2, Len(Grps)) + 1]
ParOf(x) == Params[Pick(HS(x), 3, Len(Params)) + 1]
NeedsParam(a) == a \in {"topk", "bottomk", "quantile"}
\* the selector is the whole dataset except the parameter series
SelAll(x) == IF x.ds = "twometrics" THEN <<Re("__name__", "m|n", <<"m", "n">>)>> ELSE <<Metric("m")>>
PlanOf(x) ==
  LET a == AggOf(x) gp == GrpOf(x) pr == ParOf(x) IN
  IF ~NeedsParam(a) THEN <<Sel(SelAll(x)), Agg(a, gp.by, gp.grp, <<1>>)>>
  ELSE IF pr.k = "lit" THEN <<Sel(SelAll(x)), Num(pr.v), Agg(a, gp.by, gp.grp, <<2, 1>>)>>
  ELSE IF pr.k = "str" THEN <<Sel(SelAll(x)), NumS(pr.s), Agg(a, gp.by, gp.grp, <<2, 1>>)>>
  ELSE IF pr.k = "self" THEN <<Sel(SelAll(x)), Sel(SelAll(x)), Agg("sum", TRUE, <<>>, <<2>>), Fn("scalar", <<3>>), Agg(a, gp.by, gp.grp, <<4, 1>>)>>
  ELSE <<Sel(SelAll(x)), Sel(<<Metric("p")>>), Fn("scalar", <<2>>), Agg(a, gp.by, gp.grp, <<3, 1>>)>>

ScnOf(x) == Scn("agg", "C04", TickMs, Data(x), PlanOf(x), 0, x.n - 1, 1, 1, 0)

\* model-level law (checked on every enumerated scenario, for sum and count with every grouping of Grps):
\* the groups partition the input present at the step: counts add up to the input size and
\* no two outputs share a label set
AggLaw ==
  \A gi \in (IF Q THEN {2, 5, 9, 11} ELSE 1..Len(Grps)) :
    LET gp == Grps[gi]
        sc == [ScnOf(g) EXCEPT !.plan = <<Sel(SelAll(g)), Agg("count", gp.by, gp.grp, <<1>>)>>]
        gr == Grid(sc) IN
    \A i \in 1..Len(gr) :
       LET in == Eval(sc, 1, gr[i])  out == Eval(sc, 2, gr[i]) IN
       /\ out.why = {} /\ ~HasDupLS(out.vec)
       /\ SumVals([y \in 1..Len(out.vec) |-> out.vec[y].val]) = I(Len(in.vec))
       /\ \A y \in 1..Len(out.vec) : \A p \in out.vec[y].ls : p[1] # "__name__" \/ (gp.by /\ "__name__" \in ToSet(gp.grp))

EmitAgg == IF Pick(Hash(g), 0, Mod) = Seed % Mod THEN Emit(ScnOf(g)) ELSE TRUE
=============================================================================
