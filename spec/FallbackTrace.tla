---------------------------- MODULE FallbackTrace ----------------------------
(***************************************************************************)
(* Trace specification for C08.  Per query text (scenario) the harness     *)
(* records: "ref" (does the reference engine accept the query at creation),*)
(* and for fallback on / off a "create" event (accepted?, path of the      *)
(* returned query object, does the error identify itself as unsupported /  *)
(* not implemented, counter deltas per label) and, when the query was      *)
(* executed, an "exec" event (result equals the reference result?, does a  *)
(* result error identify itself as unsupported?).                          *)
(***************************************************************************)
EXTENDS Integers, Sequences, FiniteSets, TLC, Json, SequencesExt

CONSTANT TraceFile
Trace == ndJsonDeserialize(TraceFile)

VARIABLES l, cur, refok, on, off, part, viol, stat
vars == <<l, cur, refok, on, off, part, viol, stat>>
NoneC == [seen |-> FALSE, ok |-> FALSE, path |-> "", sentinel |-> FALSE, dtrue |-> 0, dfalse |-> 0, execd |-> FALSE, equal |-> TRUE, execsentinel |-> FALSE, shape |-> ""]
Stat0 == [sc |-> 0, valid |-> 0, native |-> 0, fallback |-> 0, rejected |-> 0, invalid |-> 0]
\* part: the construct the text is built around, created on its own (fallback on): [seen, ok, path]
NoPart == [seen |-> FALSE, ok |-> FALSE, path |-> ""]
Init == l = 1 /\ cur = [id |-> ""] /\ refok = FALSE /\ on = NoneC /\ off = NoneC /\ part = NoPart /\ viol = {} /\ stat = Stat0
IsEv(e) == l <= Len(Trace) /\ Trace[l].ev = e /\ l' = l + 1

Header == /\ IsEv("sc") /\ cur' = Trace[l] /\ refok' = FALSE /\ on' = NoneC /\ off' = NoneC /\ part' = NoPart
          /\ stat' = [stat EXCEPT !.sc = @ + 1] /\ UNCHANGED viol
RefEv == /\ IsEv("ref") /\ refok' = Trace[l].ok /\ UNCHANGED <<cur, on, off, part, viol, stat>>
PartEv == /\ IsEv("part") /\ part' = [seen |-> TRUE, ok |-> Trace[l].ok, path |-> Trace[l].path] /\ UNCHANGED <<cur, refok, on, off, viol, stat>>
CreateEv == /\ IsEv("create")
            /\ LET e == Trace[l]
                   c == [NoneC EXCEPT !.seen = TRUE, !.ok = e.ok, !.path = e.path, !.sentinel = e.sentinel, !.dtrue = e.dtrue, !.dfalse = e.dfalse]
               IN IF e.fallback THEN on' = c /\ UNCHANGED off ELSE off' = c /\ UNCHANGED on
            /\ UNCHANGED <<cur, refok, part, viol, stat>>
ExecEv == /\ IsEv("exec")
          /\ LET e == Trace[l] IN
             IF e.fallback THEN on' = [on EXCEPT !.execd = TRUE, !.equal = e.equal, !.execsentinel = e.sentinel, !.shape = e.shape] /\ UNCHANGED off
             ELSE off' = [off EXCEPT !.execd = TRUE, !.equal = e.equal, !.execsentinel = e.sentinel, !.shape = e.shape] /\ UNCHANGED on
          /\ UNCHANGED <<cur, refok, part, viol, stat>>

V(c, d) == {<<cur.id, c, d>>}
EndEv ==
  /\ IsEv("end")
  /\ LET
       \* F1: with fallback on, created iff the reference creates it; executed result = reference result
       f1 == (IF on.seen /\ on.ok # refok THEN V("F1", "creation differs from the reference engine") ELSE {})
             \cup (IF on.seen /\ on.ok /\ on.execd /\ ~on.equal THEN V("F1", "result differs from the reference engine (" \o on.shape \o ")") ELSE {})
       \* F2: the path is decided at creation: no executed query fails with an unsupported / not implemented error,
       \*     and the decision is the same with fallback on and off
       f2 == (IF (on.execd /\ on.execsentinel) \/ (off.execd /\ off.execsentinel) THEN V("F2", "unsupported construct discovered during execution") ELSE {})
             \cup (IF on.seen /\ off.seen /\ on.ok /\ ((on.path = "native") # off.ok) THEN V("F2", "native/unsupported decision differs with fallback on and off") ELSE {})
       \* F3: with fallback off: rejected with a sentinel error, or behaves as the reference
       f3 == (IF off.seen /\ refok /\ ~off.ok /\ ~off.sentinel THEN V("F3", "rejected without an unsupported / not implemented error") ELSE {})
             \cup (IF off.seen /\ off.ok /\ off.execd /\ ~off.equal THEN V("F3", "result differs from the reference engine (" \o off.shape \o ")") ELSE {})
             \cup (IF off.seen /\ ~refok /\ off.ok THEN V("F3", "accepted a query the reference engine rejects") ELSE {})
       \* F4: one counter increment per created query, labelled with the path taken
       f4(c) == IF ~c.seen THEN {}
                ELSE IF c.ok THEN (IF (c.path = "fallback" /\ c.dtrue = 1 /\ c.dfalse = 0) \/ (c.path = "native" /\ c.dtrue = 0 /\ c.dfalse = 1)
                                   THEN {} ELSE V("F4", "counter does not match the path taken"))
                ELSE (IF c.dtrue = 0 /\ c.dfalse = 0 THEN {} ELSE V("F4", "counter incremented for a query that was not created"))
       \* F5: whether a construct is unsupported is decided from the expression alone: a vector or scalar expression that
       \*     falls back on its own is not evaluated natively (approximately) as a part of a larger query
       f5 == IF part.seen /\ part.ok /\ part.path = "fallback" /\ ((on.seen /\ on.ok /\ on.path = "native") \/ (off.seen /\ off.ok))
             THEN V("F5", "a construct that falls back on its own is evaluated natively inside this query") ELSE {}
     IN /\ viol' = viol \cup f1 \cup f2 \cup f3 \cup f4(on) \cup f4(off) \cup f5
        /\ stat' = [stat EXCEPT !.valid = @ + (IF refok THEN 1 ELSE 0), !.invalid = @ + (IF refok THEN 0 ELSE 1),
                                !.native = @ + (IF on.ok /\ on.path = "native" THEN 1 ELSE 0),
                                !.fallback = @ + (IF on.ok /\ on.path = "fallback" THEN 1 ELSE 0),
                                !.rejected = @ + (IF off.seen /\ ~off.ok THEN 1 ELSE 0)]
  /\ UNCHANGED <<cur, refok, on, off, part>>

DeadEv == /\ IsEv("dead") /\ viol' = viol \cup {<<cur.id, "ProcessDead", Trace[l].why>>} /\ UNCHANGED <<cur, refok, on, off, part, stat>>
OtherEv == /\ l <= Len(Trace) /\ Trace[l].ev \notin {"sc", "ref", "part", "create", "exec", "end", "dead"}
           /\ l' = l + 1 /\ UNCHANGED <<cur, refok, on, off, part, viol, stat>>
Next == Header \/ RefEv \/ PartEv \/ CreateEv \/ ExecEv \/ EndEv \/ DeadEv \/ OtherEv
Spec == Init /\ [][Next]_vars
Done == l = Len(Trace) + 1 => /\ PrintT(<<"VIOL", ToJson(SetToSeq(viol))>>) /\ PrintT(<<"STAT", ToJson(stat)>>)
Accepted == TLCGet("stats").diameter - 1 = Len(Trace)
=============================================================================
