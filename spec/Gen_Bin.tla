------------------------------ MODULE Gen_Bin -------------------------------
(***************************************************************************)
(* C05 scenario generator: binary operators.  Two metrics "l" and "r" over *)
(* the label universe {a, b, c} in five label configurations (one-to-one,  *)
(* labels absent on some series, many-to-one, a duplicated "one" side,     *)
(* include-label already present), every presence history of the first lhs *)
(* series over a 4-tick period x pattern lists for the others (conflicting *)
(* series present at the same step or at disjoint steps; sides ending at   *)
(* different steps) x 4 / 12 / 23 steps.  Operator, matching mode,         *)
(* cardinality + include list, bool, scalar operands and operand wrappers  *)
(* (aggregation, grouped topk, nested binary) are chosen by seeded hash.   *)
(***************************************************************************)
EXTENDS ScnLib, PromQLRef

CONSTANTS Tier, Seed, Mod, TickMs

Q == Tier = "quick"
Period == 4
Kinds == {"f", "s", "-"}
Pat1 == [0..(Period - 1) -> Kinds]
PatA == IF Q THEN {<<"f","f","f","f">>, <<"-","f","s","-">>} ELSE {<<"f","f","f","f">>, <<"-","f","s","-">>, <<"f","s","-","f">>, <<"-","-","-","-">>}
PatB == IF Q THEN {<<"f","f","f","f">>, <<"f","-","s","f">>, <<"-","-","f","s">>} ELSE {<<"f","f","f","f">>, <<"f","-","s","f">>, <<"-","-","f","s">>, <<"s","f","-","-">>}
PatC == IF Q THEN {<<"f","f","f","f">>, <<"s","-","f","f">>} ELSE {<<"f","f","f","f">>, <<"s","-","f","f">>, <<"-","f","-","s">>}
NStepsSet == IF Q THEN {4, 12} ELSE {4, 12, 23}
\* twonames: two many-side series that differ in the metric name only (selected by a regex on __name__)
Datasets == {"one2one", "absent", "many", "dupone", "incl", "twonames"}

\* label sets: first the lhs series (metric l), then the rhs series (metric r)
LOf(ds) ==
  CASE ds = "one2one" -> << << <<"__name__","l">>, <<"a","x">>, <<"b","1">> >>, << <<"__name__","l">>, <<"a","y">>, <<"b","1">> >> >>
    [] ds = "absent"  -> << << <<"__name__","l">>, <<"a","x">> >>, << <<"__name__","l">>, <<"a","x">>, <<"b","2">> >> >>
    [] ds = "many"    -> << << <<"__name__","l">>, <<"a","x">>, <<"b","1">> >>, << <<"__name__","l">>, <<"a","x">>, <<"b","2">> >> >>
    [] ds = "dupone"  -> << << <<"__name__","l">>, <<"a","x">>, <<"b","1">> >>, << <<"__name__","l">>, <<"a","y">>, <<"b","1">> >> >>
    [] ds = "incl"    -> << << <<"__name__","l">>, <<"a","x">>, <<"b","1">>, <<"c","own">> >>, << <<"__name__","l">>, <<"a","x">>, <<"b","2">> >> >>
    [] ds = "twonames" -> << << <<"__name__","l">>, <<"a","x">>, <<"b","1">> >>, << <<"__name__","l2">>, <<"a","x">>, <<"b","1">> >> >>
ROf(ds) ==
  CASE ds = "one2one" -> << << <<"__name__","r">>, <<"a","x">>, <<"b","1">> >>, << <<"__name__","r">>, <<"a","y">>, <<"b","1">> >> >>
    [] ds = "absent"  -> << << <<"__name__","r">>, <<"a","x">> >>, << <<"__name__","r">>, <<"b","2">> >> >>
    [] ds = "many"    -> << << <<"__name__","r">>, <<"a","x">>, <<"c","p">> >>, << <<"__name__","r">>, <<"a","y">>, <<"c","q">> >> >>
    [] ds = "dupone"  -> << << <<"__name__","r">>, <<"a","x">>, <<"c","p">> >>, << <<"__name__","r">>, <<"a","x">>, <<"c","q">> >> >>
    [] ds = "incl"    -> << << <<"__name__","r">>, <<"a","x">>, <<"c","p">>, <<"A","up">> >>, << <<"__name__","r">>, <<"a","y">>, <<"c","q">> >> >>
    [] ds = "twonames" -> << << <<"__name__","r">>, <<"a","x">>, <<"c","p">> >>, << <<"__name__","r">>, <<"a","y">>, <<"c","q">> >> >>

Ops == <<"+", "-", "*", "/", "%", "^", "==", "!=", "<", ">", "<=", ">=", "atan2", "+", "==", ">", "*">>
\* matching: [on, ml]
Matchings == << [on |-> FALSE, ml |-> <<>>], [on |-> TRUE, ml |-> <<"a">>], [on |-> TRUE, ml |-> <<"a", "b">>],
                [on |-> FALSE, ml |-> <<"b">>], [on |-> FALSE, ml |-> <<"b", "c">>], [on |-> TRUE, ml |-> <<>>],
                [on |-> FALSE, ml |-> <<"b", "c", "A">>], [on |-> TRUE, ml |-> <<"c">>], [on |-> TRUE, ml |-> <<"a">>],
                \* a label named twice (legal)
                [on |-> TRUE, ml |-> <<"a", "b", "a">>], [on |-> FALSE, ml |-> <<"b", "b", "c">>] >>
\* cardinality + include labels
Cards == << [card |-> "1:1", inc |-> <<>>], [card |-> "N:1", inc |-> <<>>], [card |-> "N:1", inc |-> <<"c">>],
            [card |-> "N:1", inc |-> <<"A", "c">>], [card |-> "1:N", inc |-> <<>>], [card |-> "1:N", inc |-> <<"c">>],
            [card |-> "1:1", inc |-> <<>>], [card |-> "N:1", inc |-> <<"b">>], [card |-> "1:1", inc |-> <<>>] >>
\* shapes of the two operands
\* sumvv / cntvv: the join below an aggregation (what the join lets through is absorbed, not re-checked at the top)
Shapes == <<"vv", "vv", "vv", "vs", "sv", "vss", "ssv", "ss", "vv", "st", "vv", "vvagg", "vvtopk", "vvnest", "vv", "sumvv", "cntvv", "sumvs", "topkvs">>

VARIABLE g
Init == g \in [ds : Datasets, p1 : Pat1, pa : PatA, pb : PatB, pc : PatC, n : NStepsSet]
Next == UNCHANGED g

PatOf(x, side, j) == IF side = "l" THEN (IF j = 1 THEN [u \in 1..Period |-> x.p1[u - 1]] ELSE x.pa)
                     ELSE (IF j = 1 THEN x.pb ELSE x.pc)
ValOf(side, j, u) == IF side = "l" THEN 3 + j + 2 * (u % 3) ELSE 4 + j + (u % 4)
SmpOf(x, side, j) == LET ticks == SelectSeq([u \in 1..x.n |-> u - 1], LAMBDA u : PatOf(x, side, j)[(u % Period) + 1] # "-")
                     IN [i \in 1..Len(ticks) |->
                           LET u == ticks[i] k == PatOf(x, side, j)[(u % Period) + 1] IN
                           Smp(u, IF k = "s" THEN "s" ELSE "f", ValOf(side, j, u))]
ParamSeries(x) == Series(<< <<"__name__", "p">> >>, [u \in 1..x.n |-> Smp(u - 1, IF u % 5 = 0 THEN "s" ELSE "f", (u + 1) % 4)])
Data(x) == [j \in 1..2 |-> Series(LOf(x.ds)[j], SmpOf(x, "l", j))] \o [j \in 1..2 |-> Series(ROf(x.ds)[j], SmpOf(x, "r", j))]
           \o <<ParamSeries(x)>>

PH(p) == FoldSet(LAMBDA u, acc : acc + (IF p[u] = "-" THEN 0 ELSE IF p[u] = "f" THEN u ELSE 5 * u), 0, 1..Period)
Hash(x) == (x.n * 7 + (CASE x.ds = "one2one" -> 1 [] x.ds = "absent" -> 2 [] x.ds = "many" -> 3 [] x.ds = "dupone" -> 4 [] x.ds = "twonames" -> 6 [] OTHER -> 5) * 11
            + FoldSet(LAMBDA u, acc : acc + (IF x.p1[u] = "-" THEN 0 ELSE IF x.p1[u] = "f" THEN u + 1 ELSE 5 * (u + 1)), 0, 0..(Period - 1)) * 17
            + PH(x.pa) * 19 + PH(x.pb) * 23 + PH(x.pc) * 29)
HS(x) == Hash(x) + (Seed % 997) * 131
OpOf(x)    == Ops[Pick(HS(x), 1, Len(Ops)) + 1]
MatchOf(x) == Matchings[Pick(HS(x), 2, Len(Matchings)) + 1]
CardOf(x)  == Cards[Pick(HS(x), 3, Len(Cards)) + 1]
ShapeOf(x) == Shapes[Pick(HS(x), 4, Len(Shapes)) + 1]
BoolOf(x)  == IsCmpOp(OpOf(x)) /\ (Pick(HS(x), 5, 3) = 0 \/ ShapeOf(x) \in {"ss", "st"})

LSel == <<Sel(<<Metric("l")>>)>>
LSelOf(x) == IF x.ds = "twonames" THEN <<Sel(<<Re("__name__", "l|l2", <<"l", "l2">>)>>)>> ELSE LSel
RSel == <<Sel(<<Metric("r")>>)>>
PSca == <<Sel(<<Metric("p")>>), Fn("scalar", <<1>>)>>
VV(x, lp, rp) == LET m == MatchOf(x) c == CardOf(x) IN
                 Join(lp, rp, LAMBDA a, b : BinM(OpOf(x), a, b, BoolOf(x), c.card, m.on, m.ml, c.inc))
SB(x, lp, rp) == Join(lp, rp, LAMBDA a, b : BinM(OpOf(x), a, b, BoolOf(x), "1:1", FALSE, <<>>, <<>>))
PlanOf(x) ==
  LET sh == ShapeOf(x) IN
  CASE sh = "vv"     -> VV(x, LSelOf(x), RSel)
    [] sh = "vs"     -> SB(x, LSelOf(x), <<Num(5)>>)
    [] sh = "sv"     -> SB(x, <<Num(5)>>, RSel)
    [] sh = "vss"    -> SB(x, LSelOf(x), PSca)
    [] sh = "ssv"    -> SB(x, PSca, RSel)
    [] sh = "ss"     -> SB(x, <<Num(2)>>, <<Num(3)>>)
    [] sh = "st"     -> SB(x, <<Fn("time", <<>>)>>, <<Num(3)>>)
    [] sh = "vvagg"  -> VV(x, Over(LSelOf(x), LAMBDA c : Agg("sum", TRUE, <<"a", "b">>, <<c>>)), Over(RSel, LAMBDA c : Agg("max", FALSE, <<"A">>, <<c>>)))
    [] sh = "vvtopk" -> VV(x, Join(<<Num(1)>>, LSelOf(x), LAMBDA a, b : Agg("topk", TRUE, <<"a">>, <<a, b>>)), RSel)
    [] sh = "sumvs"  -> Over(SB(x, LSelOf(x), <<Num(5)>>), LAMBDA c : Agg("sum", TRUE, <<"a">>, <<c>>))
    [] sh = "topkvs" -> Join(<<Num(1)>>, SB(x, LSelOf(x), PSca), LAMBDA a, b : Agg("topk", TRUE, <<>>, <<a, b>>))
    [] sh = "sumvv"  -> Over(VV(x, LSelOf(x), RSel), LAMBDA c : Agg("sum", TRUE, <<"a">>, <<c>>))
    [] sh = "cntvv"  -> Over(VV(x, LSelOf(x), RSel), LAMBDA c : Agg("count", FALSE, <<"b">>, <<c>>))
    [] sh = "vvnest" -> VV(x, Join(LSelOf(x), <<Num(1)>>, LAMBDA a, b : Bin("*", a, b)), RSel)

ScnOf(x) == Scn("bin", "C05", TickMs, Data(x), PlanOf(x), 0, x.n - 1, 1, 1, 0)

\* model-level law, checked on every enumerated scenario for `l + on(a) group_left r` and `l + ignoring(b,c) r`:
\* every output pairs exactly one lhs element with one rhs element of the same signature (values add up),
\* and the step fails iff the "one" side has two elements with one signature (or a one-to-one match is ambiguous)
BinLaw == g.ds = "twonames" \/
  LET sc == [ScnOf(g) EXCEPT !.plan = Join(LSel, RSel, LAMBDA a, b : BinM("+", a, b, FALSE, "N:1", TRUE, <<"a">>, <<>>))]
      gr == Grid(sc) IN
  \A i \in 1..Len(gr) :
     LET l == Eval(sc, 1, gr[i]) r == Eval(sc, 2, gr[i]) o == Eval(sc, 3, gr[i])
         sigs(v) == {LKeep(v[y].ls, {"a"}) : y \in 1..Len(v)}
         dupR == \E y, z \in 1..Len(r.vec) : y < z /\ LKeep(r.vec[y].ls, {"a"}) = LKeep(r.vec[z].ls, {"a"})
     IN IF Len(l.vec) = 0 \/ Len(r.vec) = 0 THEN o.why = {} /\ Len(o.vec) = 0
        ELSE IF dupR THEN o.why # {}
        ELSE Len(o.vec) = Cardinality({y \in 1..Len(l.vec) : LKeep(l.vec[y].ls, {"a"}) \in sigs(r.vec)})

EmitBin == IF Pick(Hash(g), 0, Mod) = Seed % Mod THEN Emit(ScnOf(g)) ELSE TRUE
=============================================================================
