---------------------------- MODULE Gen_Compose -----------------------------
(***************************************************************************)
(* C01 scenario generator: composition of the natively supported           *)
(* constructs.  Every well-typed plan  W2(W1(leaf1)) [bop W1'(leaf2)]  over *)
(* alphabets of leaves (selectors with matchers / offset / @, range        *)
(* functions, literals, time(), scalar(p), vector(1)), wrappers (functions,*)
(* unary minus, both aggregation kinds incl. grouped topk and quantile,    *)
(* scalar arithmetic and comparison with and without bool, clamp_min,      *)
(* timestamp, scalar()) and binary combinations (one-to-one, on(),         *)
(* group_left), over a dataset with gaps, staleness markers, NaN, an       *)
(* upper-case label and a label absent on some series, for instant and     *)
(* range windows whose step counts cross the batch size.                   *)
(***************************************************************************)
EXTENDS ScnLib, PromQLRef

CONSTANTS Tier, Seed, Mod, TickMs

Q == Tier = "quick"
Leafs  == {"m", "mx", "moff", "mpin", "rate", "sot", "lot", "time", "num", "sp", "vec1", "n"}
Wraps  == {"id", "abs", "neg", "sumby", "sum", "topk", "topkby", "maxwo", "mul2", "gt3", "gtb3", "cmin", "ts", "count", "q50", "scalar", "paren", "avgby", "bk2"}
Wraps2 == IF Q THEN {"id", "neg", "sumby", "topkby", "mul2", "gt3", "scalar", "count"}
          ELSE {"id", "neg", "sumby", "topkby", "mul2", "gt3", "scalar", "count", "abs", "maxwo", "q50", "paren"}
Wraps1 == IF Q THEN {"id", "abs", "neg", "sumby", "topk", "topkby", "maxwo", "gtb3", "cmin", "ts", "q50", "scalar", "bk2"} ELSE Wraps
Leafs2 == IF Q THEN {"none", "m", "sp"} ELSE {"none", "m", "n", "sp", "rate", "mpin"}
BOps   == IF Q THEN {"+", ">", "gl"} ELSE {"+", ">", "gl", "*on", "==b", "-"}
\* 1 = instant query; 0 = a range query of a single step (start = end)
NStepsSet == IF Q THEN {0, 1, 12} ELSE {0, 1, 4, 12, 23}
Starts == {2}

VARIABLE g
TypeOKInit(x) == TRUE
Init == g \in [l1 : Leafs, w1 : Wraps1, w2 : Wraps2, l2 : Leafs2, w3 : {"id", "sumby"}, bop : BOps, n : NStepsSet]
Next == UNCHANGED g

\* ---- dataset: 4 series of m (gaps, marker, NaN, absent label b, upper-case label), 2 of n, parameter p
Span == 26
Ticks(P(_)) == SelectSeq([u \in 1..Span |-> u - 1], P)
Data == <<
  Series(<< <<"__name__","m">>, <<"a","x">>, <<"b","1">> >>, [i \in 1..Span |-> Smp(i - 1, "f", i)]),
  Series(<< <<"__name__","m">>, <<"a","x">>, <<"b","2">> >>,
         LET t == Ticks(LAMBDA u : u % 5 # 3) IN [i \in 1..Len(t) |-> Smp(t[i], IF t[i] % 7 = 6 THEN "s" ELSE "f", 40 + (t[i] % 6))]),
  Series(<< <<"__name__","m">>, <<"a","y">> >>,
         LET t == Ticks(LAMBDA u : u < 9 \/ u > 15) IN [i \in 1..Len(t) |-> Smp(t[i], IF t[i] = 4 THEN "nan" ELSE "f", 100 - t[i])]),
  Series(<< <<"__name__","m">>, <<"Z","up">>, <<"a","z">>, <<"b","1">> >>,
         LET t == Ticks(LAMBDA u : u % 2 = 0) IN [i \in 1..Len(t) |-> Smp(t[i], IF t[i] = 8 THEN "s" ELSE "f", 7 * (t[i] % 3))]),
  Series(<< <<"__name__","n">>, <<"a","x">>, <<"b","1">> >>, [i \in 1..Span |-> Smp(i - 1, "f", 3)]),
  Series(<< <<"__name__","n">>, <<"a","y">> >>,
         LET t == Ticks(LAMBDA u : u % 3 # 1) IN [i \in 1..Len(t) |-> Smp(t[i], "f", 2 + (t[i] % 2))]),
  Series(<< <<"__name__","p">> >>,
         LET t == Ticks(LAMBDA u : u % 4 # 0) IN [i \in 1..Len(t) |-> Smp(t[i], "f", (t[i] % 3) + 1)]) >>

LeafPlan(l) ==
  CASE l = "m"    -> <<Sel(<<Metric("m")>>)>>
    [] l = "n"    -> <<Sel(<<Metric("n")>>)>>
    [] l = "mx"   -> <<Sel(<<Metric("m"), Re("a", "x|z", <<"x", "z">>), Neq("b", "2")>>)>>
    [] l = "moff" -> <<SelOff(<<Metric("m")>>, 2)>>
    [] l = "mpin" -> <<SelAt(<<Metric("m")>>, 0, "lit", 5)>>
    [] l = "rate" -> <<RFn("rate", <<Metric("m")>>, 3, 0, "none", 0)>>
    [] l = "sot"  -> <<RFn("sum_over_time", <<Metric("m")>>, 2, 1, "none", 0)>>
    [] l = "lot"  -> <<RFn("last_over_time", <<Metric("m"), Eq("a", "x")>>, 2, 0, "none", 0)>>
    [] l = "time" -> <<Fn("time", <<>>)>>
    [] l = "num"  -> <<Num(3)>>
    [] l = "sp"   -> <<Sel(<<Metric("p")>>), Fn("scalar", <<1>>)>>
    [] l = "vec1" -> <<Num(1), Fn("vector", <<1>>)>>

IsSc(p) == IsScalarNode(p, Len(p))
\* wrapper w applied to plan p; <<>> when not well-typed
Wrap(w, p) ==
  LET sc == IsSc(p) IN
  CASE w = "id"     -> p
    [] w = "paren"  -> Over(p, LAMBDA c : Paren(c))
    [] w = "neg"    -> Over(p, LAMBDA c : NegN(c))
    [] w = "mul2"   -> Join(p, <<Num(2)>>, LAMBDA a, b : Bin("*", a, b))
    [] w = "gtb3"   -> Join(p, <<Num(3)>>, LAMBDA a, b : BinM(">", a, b, TRUE, "1:1", FALSE, <<>>, <<>>))
    [] w = "gt3"    -> IF sc THEN <<>> ELSE Join(p, <<Num(3)>>, LAMBDA a, b : Bin(">", a, b))
    [] w = "abs"    -> IF sc THEN <<>> ELSE Over(p, LAMBDA c : Fn("abs", <<c>>))
    [] w = "ts"     -> IF sc THEN <<>> ELSE Over(p, LAMBDA c : Fn("timestamp", <<c>>))
    [] w = "cmin"   -> IF sc THEN <<>> ELSE Join(p, <<Sel(<<Metric("p")>>), Fn("scalar", <<1>>)>>, LAMBDA a, b : Fn("clamp_min", <<a, b>>))
    [] w = "scalar" -> IF sc THEN <<>> ELSE Over(p, LAMBDA c : Fn("scalar", <<c>>))
    [] w = "sumby"  -> IF sc THEN <<>> ELSE Over(p, LAMBDA c : Agg("sum", TRUE, <<"a">>, <<c>>))
    [] w = "avgby"  -> IF sc THEN <<>> ELSE Over(p, LAMBDA c : Agg("avg", TRUE, <<"b">>, <<c>>))
    [] w = "sum"    -> IF sc THEN <<>> ELSE Over(p, LAMBDA c : Agg("sum", TRUE, <<>>, <<c>>))
    [] w = "count"  -> IF sc THEN <<>> ELSE Over(p, LAMBDA c : Agg("count", FALSE, <<"b", "Z">>, <<c>>))
    [] w = "maxwo"  -> IF sc THEN <<>> ELSE Over(p, LAMBDA c : Agg("max", FALSE, <<"b">>, <<c>>))
    [] w = "topk"   -> IF sc THEN <<>> ELSE Join(<<Num(2)>>, p, LAMBDA a, b : Agg("topk", TRUE, <<>>, <<a, b>>))
    [] w = "topkby" -> IF sc THEN <<>> ELSE Join(<<Num(1)>>, p, LAMBDA a, b : Agg("topk", TRUE, <<"a">>, <<a, b>>))
    [] w = "bk2"    -> IF sc THEN <<>> ELSE Join(<<Sel(<<Metric("p")>>), Fn("scalar", <<1>>)>>, p, LAMBDA a, b : Agg("bottomk", FALSE, <<"b">>, <<a, b>>))
    [] w = "q50"    -> IF sc THEN <<>> ELSE Join(<<NumS("0.5")>>, p, LAMBDA a, b : Agg("quantile", TRUE, <<"a">>, <<a, b>>))

Combine(op, p, q) ==
  LET ps == IsSc(p) qs == IsSc(q) IN
  CASE op = "+"   -> Join(p, q, LAMBDA a, b : Bin("+", a, b))
    [] op = "-"   -> Join(p, q, LAMBDA a, b : Bin("-", a, b))
    [] op = ">"   -> IF ps /\ qs THEN <<>> ELSE Join(p, q, LAMBDA a, b : Bin(">", a, b))
    [] op = "==b" -> Join(p, q, LAMBDA a, b : BinM("==", a, b, TRUE, "1:1", FALSE, <<>>, <<>>))
    [] op = "*on" -> IF ps \/ qs THEN <<>> ELSE Join(p, q, LAMBDA a, b : BinM("*", a, b, FALSE, "1:1", TRUE, <<"a", "b">>, <<>>))
    [] op = "gl"  -> IF ps \/ qs THEN <<>> ELSE Join(p, q, LAMBDA a, b : BinM("/", a, b, FALSE, "N:1", TRUE, <<"a">>, <<>>))

PlanOf(x) ==
  LET a == Wrap(x.w1, LeafPlan(x.l1)) IN
  IF a = <<>> THEN <<>>
  ELSE LET b == Wrap(x.w2, a) IN
       IF b = <<>> THEN <<>>
       ELSE IF x.l2 = "none" THEN b
       ELSE LET c == Wrap(x.w3, LeafPlan(x.l2)) IN
            IF c = <<>> THEN <<>> ELSE Combine(x.bop, b, c)

Valid(x) == PlanOf(x) # <<>> /\ (x.l2 = "none" => (x.w3 = "id" /\ x.bop = "+"))
ScnOf(x) == Scn("cmp", "C01", TickMs, Data, PlanOf(x), 2, IF x.n <= 1 THEN 2 ELSE 2 + (x.n - 1), IF x.n = 1 THEN 0 ELSE 1, 2, 0)

\* model-level law on every well-typed plan: a step without error has pairwise distinct label sets,
\* and a scalar-typed plan denotes exactly one value per step
ComposeLaw ==
  Valid(g) =>
    LET sc == ScnOf(g) gr == GridRes(sc) IN
    \A i \in 1..Len(gr) :
       /\ (gr[i].why = {} /\ ~gr[i].unk) => ~HasDupLS(gr[i].vec)
       /\ IsSc(sc.plan) => Len(gr[i].vec) = 1

Code(s, S) == CHOOSE i \in 1..Cardinality(S) : SetToSortSeq(S, LAMBDA a, b : TRUE)[i] = s
Hash(x) == LET p == PlanOf(x) IN Len(p) * 7 + x.n * 13
              + FoldSet(LAMBDA i, acc : (acc * 3 + Len(p[i].fn) + Len(p[i].op) * 5 + Len(p[i].args) * 11 + p[i].off + p[i].rng * 2) % 100003, 1, 1..Len(p))
EmitCmp == IF Valid(g) /\ Pick(Hash(g), 0, Mod) = Seed % Mod THEN Emit(ScnOf(g)) ELSE TRUE
=============================================================================
