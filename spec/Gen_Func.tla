------------------------------ MODULE Gen_Func ------------------------------
(***************************************************************************)
(* C06 scenario generator: instant functions, scalars, unary minus and     *)
(* @-pinned parts.  Two series m{a="x"}, m{a="y"} (value domain incl.      *)
(* negative, zero, NaN, +/-Inf), a parameter series p (present at some     *)
(* ticks only, so scalar(p) is NaN at some steps) x every presence history *)
(* of m{a="x"} over a 4-tick period x step counts 1 (instant), 4, 12, 23,  *)
(* 35 and 101 x a list of expression shapes chosen by the seeded hash:     *)
(* every natively supported function over selectors / aggregations /       *)
(* nested functions / pinned selectors, clamp* with literal, per-step and  *)
(* sometimes-absent scalar arguments (incl. max < min), timestamp() with   *)
(* samples off the step, scalar() of 0/1/2 elements, vector(scalar), and   *)
(* top-level scalar-typed expressions.                                     *)
(***************************************************************************)
EXTENDS ScnLib, PromQLRef

CONSTANTS Tier, Seed, Mod, TickMs

Q == Tier = "quick"
Period == 4
Kinds == {"f", "s", "-"}
Pat1 == [0..(Period - 1) -> Kinds]
Pat2 == IF Q THEN {<<"f","f","f","f">>, <<"-","f","s","-">>} ELSE {<<"f","f","f","f">>, <<"-","f","s","-">>, <<"-","-","-","-">>}
NStepsSet == IF Q THEN {1, 4, 12, 23} ELSE {1, 4, 12, 23, 35, 101}
\* "late": both series of m start at tick 11 only - the first internal batch of 10 steps has no sample at all
ValPats == {"pos", "mixed", "late"}
LBs == IF Q THEN {1} ELSE {1, 3}

VARIABLE g
Init == g \in [p1 : Pat1, p2 : Pat2, n : NStepsSet, vp : ValPats, lb : LBs]
Next == UNCHANGED g

\* value kinds: "mixed" places a negative, zero, NaN, +Inf, -Inf on a cycle of 7 ticks
KindAt(x, j, u) == IF x.vp = "mixed" /\ j = 1 THEN
                      (CASE u % 7 = 2 -> "nan" [] u % 7 = 4 -> "pinf" [] u % 7 = 5 -> "ninf" [] OTHER -> "f")
                   ELSE "f"
ValAt(x, j, u) == IF x.vp = "mixed" THEN (IF j = 1 THEN (u % 5) - 2 ELSE 3 - (u % 4)) ELSE 2 * j + (u % 3)
PatOf(x, j) == IF j = 1 THEN [u \in 1..Period |-> x.p1[u - 1]] ELSE x.p2
Span(x) == IF x.n = 1 THEN 8 ELSE x.n
SmpOf(x, j) == LET ticks == SelectSeq([u \in 1..Span(x) |-> u - 1], LAMBDA u : PatOf(x, j)[(u % Period) + 1] # "-" /\ (x.vp = "late" => u >= 11))
               IN [i \in 1..Len(ticks) |->
                     LET u == ticks[i] k == PatOf(x, j)[(u % Period) + 1] IN
                     Smp(u, IF k = "s" THEN "s" ELSE KindAt(x, j, u), ValAt(x, j, u))]
\* p is present on ticks not divisible by 3 only (lookback 1 tick carries it one tick further)
ParamSeries(x) == Series(<< <<"__name__", "p">> >>,
                         LET ticks == SelectSeq([u \in 1..Span(x) |-> u - 1], LAMBDA u : u % 3 # 0)
                         IN [i \in 1..Len(ticks) |-> Smp(ticks[i], IF ticks[i] % 5 = 4 THEN "s" ELSE "f", (ticks[i] % 4) + 1)])
Data(x) == << Series(<< <<"__name__", "m">>, <<"a", "x">> >>, SmpOf(x, 1)),
              Series(<< <<"__name__", "m">>, <<"a", "y">> >>, SmpOf(x, 2)), ParamSeries(x) >>

M == <<Sel(<<Metric("m")>>)>>
MX == <<Sel(<<Metric("m"), Eq("a", "x")>>)>>
MPin == <<SelAt(<<Metric("m")>>, 0, "lit", 2)>>
MEnd == <<SelAt(<<Metric("m")>>, 1, "end", 0)>>
MXPin == <<SelAt(<<Metric("m"), Eq("a", "x")>>, 0, "lit", 2)>>
PS == <<Sel(<<Metric("p")>>), Fn("scalar", <<1>>)>>
TimeF == <<Fn("time", <<>>)>>
F1(fn, p) == Over(p, LAMBDA c : Fn(fn, <<c>>))
F2(fn, p, q) == Join(p, q, LAMBDA a, b : Fn(fn, <<a, b>>))
F3(fn, p, q, r) == LET pq == p \o Shift(q, Len(p)) IN
                   pq \o Shift(r, Len(pq)) \o <<Fn(fn, <<Len(p), Len(pq), Len(pq) + Len(r)>>)>>
SumA(p) == Over(p, LAMBDA c : Agg("sum", TRUE, <<"a">>, <<c>>))
B(op, p, q) == Join(p, q, LAMBDA a, b : Bin(op, a, b))
NegP(p) == Over(p, LAMBDA c : NegN(c))

Maths == <<"abs", "ceil", "floor", "exp", "sqrt", "ln", "log2", "log10", "sin", "cos", "tan", "asin", "acos", "atan",
           "sinh", "cosh", "tanh", "asinh", "acosh", "atanh", "rad", "deg">>

Shapes == <<
  "math", "math", "math_agg", "math_nested", "math_pin",
  "timestamp", "timestamp_off", "timestamp_agg", "timestamp_pin",
  "clamp_lit", "clamp_inv", "clamp_ps", "clamp_time", "clampmin_lit", "clampmin_ps", "clampmax_time", "clampmax_pin_time", "clampmin_pin_ps",
  "scalar_one", "scalar_two", "scalar_none", "scalar_arith", "vector_lit", "vector_time", "vector_ps",
  "time", "pi", "num", "scalar_scalar", "neg_scalar", "neg_vec", "neg_agg", "neg_pin", "pin", "pin_end", "pin_mix", "sum_pin", "time_plus",
  "ps_top", "paren_scalar",
  \* a function next to other operands of the same query (what is set up for one operand must not reach the others)
  "timestamp_plus", "plus_timestamp", "timestamp_clampps", "timestamp_minus_tsagg", "math_plus", "scalar_plus_vec",
  \* vector <op> scalar with a scalar that differs from step to step
  "vec_minus_time", "time_minus_vec", "vec_mul_ps", "vec_gtbool_time",
  \* rarely used syntax: unary plus, parentheses around a selector that is a function's argument
  "timestamp_pos", "timestamp_paren", "timestamp_pos_off", "pos_vec", "pos_agg", "abs_pos", "sum_timestamp_pos",
  \* scalar-typed expressions over @-pinned parts (evaluated once, at the pinned time, for every step of the window)
  "scalar_pin", "vec_plus_scalar_pin", "clampmin_scalar_sumend", "vector_scalar_pin", "scalar_pin_plus_time",
  \* timestamp() over a selector that is pinned and shifted
  "timestamp_end_off", "timestamp_pin_off" >>

PH(p) == FoldSet(LAMBDA u, acc : acc + (IF p[u] = "-" THEN 0 ELSE IF p[u] = "f" THEN u ELSE 5 * u), 0, 1..Period)
Hash(x) == (x.n * 7 + (IF x.vp = "pos" THEN 1 ELSE IF x.vp = "mixed" THEN 2 ELSE 3) * 11 + x.lb * 13
            + FoldSet(LAMBDA u, acc : acc + (IF x.p1[u] = "-" THEN 0 ELSE IF x.p1[u] = "f" THEN u + 1 ELSE 5 * (u + 1)), 0, 0..(Period - 1)) * 17
            + PH(x.p2) * 19)
HS(x) == Hash(x) + (Seed % 997) * 131
ShapeOf(x) == Shapes[Pick(HS(x), 1, Len(Shapes)) + 1]
MathOf(x) == Maths[Pick(HS(x), 2, Len(Maths)) + 1]

PlanOf(x) ==
  LET sh == ShapeOf(x) fn == MathOf(x) IN
  CASE sh = "math"          -> F1(fn, M)
    [] sh = "math_agg"      -> F1(fn, SumA(M))
    [] sh = "math_nested"   -> F1(fn, F1("abs", M))
    [] sh = "math_pin"      -> F1(fn, MPin)
    [] sh = "timestamp"     -> F1("timestamp", M)
    [] sh = "timestamp_off" -> F1("timestamp", <<SelOff(<<Metric("m")>>, 1)>>)
    [] sh = "timestamp_agg" -> F1("timestamp", SumA(M))
    [] sh = "timestamp_pin" -> F1("timestamp", MPin)
    [] sh = "clamp_lit"     -> F3("clamp", M, <<Num(0)>>, <<Num(3)>>)
    [] sh = "clamp_inv"     -> F3("clamp", M, <<Num(5)>>, <<Num(1)>>)
    [] sh = "clamp_ps"      -> F3("clamp", M, <<Num(2)>>, PS)
    [] sh = "clamp_time"    -> F3("clamp", M, <<Num(1)>>, TimeF)
    [] sh = "clampmin_lit"  -> F2("clamp_min", M, <<Num(2)>>)
    [] sh = "clampmin_ps"   -> F2("clamp_min", M, PS)
    [] sh = "clampmax_time" -> F2("clamp_max", M, TimeF)
    [] sh = "clampmax_pin_time" -> F2("clamp_max", MPin, TimeF)
    [] sh = "clampmin_pin_ps"   -> F2("clamp_min", MPin, B("-", <<Num(9)>>, TimeF))
    [] sh = "scalar_one"    -> F1("scalar", MX)
    [] sh = "scalar_two"    -> F1("scalar", M)
    [] sh = "scalar_none"   -> F1("scalar", <<Sel(<<Metric("nope")>>)>>)
    [] sh = "scalar_arith"  -> B("+", F1("scalar", MX), TimeF)
    [] sh = "vector_lit"    -> F1("vector", <<Num(7)>>)
    [] sh = "vector_time"   -> F1("vector", TimeF)
    [] sh = "vector_ps"     -> F1("vector", PS)
    [] sh = "time"          -> TimeF
    [] sh = "pi"            -> <<Fn("pi", <<>>)>>
    [] sh = "num"           -> <<Num(5)>>
    [] sh = "scalar_scalar" -> B("*", <<Num(2)>>, B("+", <<Num(3)>>, TimeF))
    [] sh = "neg_scalar"    -> NegP(PS)
    [] sh = "neg_vec"       -> NegP(M)
    [] sh = "neg_agg"       -> NegP(SumA(M))
    [] sh = "neg_pin"       -> NegP(MPin)
    [] sh = "pin"           -> MPin
    [] sh = "pin_end"       -> MEnd
    [] sh = "pin_mix"       -> Join(MPin, M, LAMBDA a, b : BinM("+", a, b, FALSE, "1:1", TRUE, <<"a">>, <<>>))
    [] sh = "sum_pin"       -> SumA(MEnd)
    [] sh = "time_plus"     -> B("+", TimeF, <<Num(1)>>)
    [] sh = "ps_top"        -> PS
    [] sh = "paren_scalar"  -> Over(B("-", TimeF, <<Num(2)>>), LAMBDA c : Paren(c))
    [] sh = "timestamp_plus" -> B("+", F1("timestamp", M), M)
    [] sh = "plus_timestamp" -> B("+", M, F1("timestamp", MX))
    [] sh = "timestamp_clampps" -> F2("clamp_min", F1("timestamp", M), F1("scalar", Over(M, LAMBDA c : Agg("max", TRUE, <<>>, <<c>>))))
    [] sh = "timestamp_minus_tsagg" -> B("-", F1("timestamp", M), F1("timestamp", SumA(M)))
    [] sh = "math_plus"     -> B("+", F1(fn, M), M)
    [] sh = "scalar_plus_vec" -> B("+", F1("scalar", MX), M)
    [] sh = "timestamp_pos"  -> F1("timestamp", Over(M, LAMBDA c : Pos(c)))
    [] sh = "timestamp_paren" -> F1("timestamp", Over(M, LAMBDA c : Paren(c)))
    [] sh = "timestamp_pos_off" -> F1("timestamp", Over(<<SelOff(<<Metric("m")>>, 1)>>, LAMBDA c : Pos(c)))
    [] sh = "pos_vec"        -> Over(M, LAMBDA c : Pos(c))
    [] sh = "pos_agg"        -> Over(SumA(M), LAMBDA c : Pos(c))
    [] sh = "abs_pos"        -> F1("abs", Over(M, LAMBDA c : Pos(c)))
    [] sh = "sum_timestamp_pos" -> SumA(F1("timestamp", Over(M, LAMBDA c : Pos(c))))
    [] sh = "timestamp_end_off" -> F1("timestamp", MEnd)
    [] sh = "timestamp_pin_off" -> F1("timestamp", <<SelAt(<<Metric("m")>>, -1, "lit", 3)>>)
    [] sh = "scalar_pin"     -> F1("scalar", MXPin)
    [] sh = "vec_plus_scalar_pin" -> B("+", M, F1("scalar", MXPin))
    [] sh = "clampmin_scalar_sumend" -> F2("clamp_min", M, F1("scalar", Over(MEnd, LAMBDA c : Agg("sum", TRUE, <<>>, <<c>>))))
    [] sh = "vector_scalar_pin" -> F1("vector", F1("scalar", MXPin))
    [] sh = "scalar_pin_plus_time" -> B("+", F1("scalar", MXPin), TimeF)
    [] sh = "vec_minus_time" -> B("-", M, TimeF)
    [] sh = "time_minus_vec" -> B("-", TimeF, M)
    [] sh = "vec_mul_ps"     -> B("*", M, PS)
    [] sh = "vec_gtbool_time" -> Join(M, TimeF, LAMBDA a, b : BinM(">", a, b, TRUE, "1:1", FALSE, <<>>, <<>>))

ScnOf(x) == Scn("fn", "C06", TickMs, Data(x), PlanOf(x), 1, IF x.n = 1 THEN 1 ELSE x.n, IF x.n = 1 THEN 0 ELSE 1, x.lb, 0)

\* model-level law, checked on every enumerated scenario: a scalar-typed expression denotes exactly one
\* value at every step, scalar(v) is NaN unless v has exactly one element, and a pinned selector denotes
\* the same vector at every step
FuncLaw ==
  LET sc1 == [ScnOf(g) EXCEPT !.plan = F1("scalar", M)]
      sc2 == [ScnOf(g) EXCEPT !.plan = MPin]
      gr == Grid(sc1) IN
  /\ \A i \in 1..Len(gr) :
       LET v == Eval(sc1, 1, gr[i]) s == Eval(sc1, 2, gr[i]) IN
       /\ Len(s.vec) = 1 /\ s.why = {}
       /\ (Len(v.vec) # 1 => s.vec[1].val = NaNV)
       /\ (Len(v.vec) = 1 => s.vec[1].val = v.vec[1].val)
  /\ \A i \in 1..Len(gr) : Eval(sc2, 1, gr[i]).vec = Eval(sc2, 1, gr[1]).vec

EmitFn == IF Pick(Hash(g), 0, Mod) = Seed % Mod THEN Emit(ScnOf(g)) ELSE TRUE
=============================================================================
