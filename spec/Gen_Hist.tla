------------------------------ MODULE Gen_Hist ------------------------------
(***************************************************************************)
(* C06 scenario generator: histogram_quantile.  One histogram (job="a")    *)
(* whose bucket layout runs over the case analysis of the reference's      *)
(* bucketQuantile - counts that are not monotonic, NaN counts in the       *)
(* first / a middle / the +Inf bucket (at every third tick only), no       *)
(* observations, no +Inf bucket, one bucket, two buckets, bounds given     *)
(* twice ("1" and "1.0", "Inf" and "+Inf"), a bound that is not a number,  *)
(* non-positive bounds, equal counts - next to a well-formed histogram     *)
(* (job="b"), a series without le and the same histogram under a second    *)
(* metric name; every presence history of the histogram's second bucket    *)
(* over a 4-tick period (float / staleness marker / nothing) x quantile    *)
(* (0.1, 0.5, 0.9, 0, 1, -1, 2, NaN, a per-step scalar that is sometimes   *)
(* absent) x operand shape x instant / 4 / 14 steps.                       *)
(* HistLaw is model-checked on every scenario.                             *)
(***************************************************************************)
EXTENDS ScnLib, PromQLRef

CONSTANTS Tier, Seed, Mod, TickMs
Q == Tier = "quick"

B(le, c, k) == [le |-> le, c |-> c, k |-> k]       \* k = "f": the count c at every tick; "nan": NaN at every third tick
Layouts == <<
  << B("1", 2, "f"), B("2", 4, "f"), B("+Inf", 8, "f") >>,                       \* well-formed
  << B("1", 6, "f"), B("2", 4, "f"), B("+Inf", 8, "f") >>,                       \* a count below its predecessor
  << B("1", 2, "f"), B("2", 9, "f"), B("+Inf", 8, "f") >>,                       \* the +Inf bucket below its predecessor
  << B("1", 2, "f"), B("2", 4, "nan"), B("+Inf", 8, "f") >>,
  << B("1", 2, "nan"), B("2", 4, "f"), B("+Inf", 8, "f") >>,
  << B("1", 2, "f"), B("2", 4, "f"), B("+Inf", 8, "nan") >>,
  << B("1", 0, "f"), B("2", 0, "f"), B("+Inf", 0, "f") >>,
  << B("1", 2, "f"), B("2", 4, "f"), B("4", 8, "f") >>,                          \* no +Inf bucket
  << B("2", 8, "f") >>,                                                          \* (the second bucket is the only one)
  << B("1", 2, "f"), B("+Inf", 8, "f") >>,
  << B("1", 2, "f"), B("1.0", 1, "f"), B("2", 4, "f"), B("+Inf", 8, "f") >>,
  << B("1", 2, "f"), B("2", 4, "f"), B("x", 5, "f"), B("+Inf", 8, "f") >>,
  << B("-1", 2, "f"), B("0", 4, "f"), B("+Inf", 8, "f") >>,
  << B("1", 4, "f"), B("2", 4, "f"), B("+Inf", 4, "f") >>,
  << B("1", 1, "f"), B("2", 2, "f"), B("4", 6, "nan"), B("10", 8, "f"), B("+Inf", 10, "f") >>,
  << B("1", 2, "f"), B("Inf", 3, "f"), B("+Inf", 5, "f") >>,
  << B("0", 5, "f"), B("2", 5, "f"), B("+Inf", 10, "f") >> >>
Quantiles == <<"0.1", "0.5", "0.9", "0", "1", "-1", "2", "NaN", "ser">>
Shapes == IF Q THEN {"direct", "sumjobs", "twonames"} ELSE {"direct", "byjoble", "sumjobs", "twonames", "paren"}
NStepsSet == IF Q THEN {1, 4, 14} ELSE {1, 4, 14, 23}
Kinds == {"f", "s", "-"}

VARIABLE g
Init == g \in [lay : 1..Len(Layouts), pres : [0..3 -> Kinds], q : 1..Len(Quantiles), shape : Shapes, n : NStepsSet]
Next == UNCHANGED g

Span(x) == x.n + 1
\* the series of bucket j of the observed histogram: the second bucket follows the presence history
BucketSmp(x, j) ==
  LET b == Layouts[x.lay][j]
      ticks == SelectSeq([u \in 1..Span(x) |-> u - 1], LAMBDA u : j # (IF Len(Layouts[x.lay]) = 1 THEN 1 ELSE 2) \/ x.pres[u % 4] # "-")
  IN [i \in 1..Len(ticks) |->
        LET u == ticks[i] IN
        Smp(u, IF j = (IF Len(Layouts[x.lay]) = 1 THEN 1 ELSE 2) /\ x.pres[u % 4] = "s" THEN "s" ELSE IF b.k = "nan" /\ u % 3 = 1 THEN "nan" ELSE "f", b.c)]
Data(x) ==
  [j \in 1..Len(Layouts[x.lay]) |-> Series(<< <<"__name__", "h_bucket">>, <<"job", "a">>, <<"le", Layouts[x.lay][j].le>> >>, BucketSmp(x, j))]
  \o << Series(<< <<"__name__", "h_bucket">>, <<"job", "b">>, <<"le", "1">> >>, [u \in 1..Span(x) |-> Smp(u - 1, "f", 2)]),
        Series(<< <<"__name__", "h_bucket">>, <<"job", "b">>, <<"le", "+Inf">> >>, [u \in 1..Span(x) |-> Smp(u - 1, "f", 4)]),
        Series(<< <<"__name__", "h_bucket">>, <<"job", "c">> >>, [u \in 1..Span(x) |-> Smp(u - 1, "f", 7)]),
        \* the same labels under a second metric name: a group of its own, whose output collides with job="b"
        Series(<< <<"__name__", "g_bucket">>, <<"job", "b">>, <<"le", "1">> >>, [u \in 1..Span(x) |-> Smp(u - 1, IF u % 5 = 0 THEN "s" ELSE "f", 1)]),
        Series(<< <<"__name__", "g_bucket">>, <<"job", "b">>, <<"le", "+Inf">> >>, [u \in 1..Span(x) |-> Smp(u - 1, IF u % 5 = 0 THEN "s" ELSE "f", 3)]),
        \* the quantile as a series: 0, 1, 2 by tick, absent (a marker) on every fourth tick
        Series(<< <<"__name__", "p">> >>, [u \in 1..Span(x) |-> Smp(u - 1, IF u % 4 = 0 THEN "s" ELSE "f", u % 3)]) >>

H == <<Sel(<<Metric("h_bucket")>>)>>
QPlan(x) == LET q == Quantiles[x.q] IN
            IF q = "ser" THEN <<Sel(<<Metric("p")>>), Fn("scalar", <<1>>)>>
            ELSE IF q \in {"0", "1", "2"} THEN <<Num(IF q = "0" THEN 0 ELSE IF q = "1" THEN 1 ELSE 2)>>
            ELSE IF q = "-1" THEN <<Num(-1)>> ELSE <<NumS(q)>>
Operand(x) ==
  CASE x.shape = "direct"   -> H
    [] x.shape = "paren"    -> Over(H, LAMBDA c : Paren(c))
    [] x.shape = "byjoble"  -> Over(H, LAMBDA c : Agg("sum", TRUE, <<"job", "le">>, <<c>>))
    [] x.shape = "sumjobs"  -> Over(H, LAMBDA c : Agg("sum", TRUE, <<"le">>, <<c>>))
    [] x.shape = "twonames" -> <<Sel(<<Re("__name__", "h_bucket|g_bucket", <<"h_bucket", "g_bucket">>)>>)>>
PlanOf(x) == Join(QPlan(x), Operand(x), LAMBDA a, b : Fn("histogram_quantile", <<a, b>>))
ScnOf(x) == Scn("hist", "C06", TickMs, Data(x), PlanOf(x), 0, x.n - 1, IF x.n = 1 THEN 0 ELSE 1, 1, 0)

\* model-level law, on every scenario and step: one output per group of samples with a numeric le (grouped by all
\* labels but le), without metric name and le; a quantile outside [0, 1] or NaN decides every value
HistLaw ==
  LET sc == ScnOf(g)  gr == Grid(sc)  root == Len(sc.plan)  opnd == root - 1 IN
  \A i \in 1..Len(gr) :
     LET in == Eval(sc, opnd, gr[i])  out == Eval(sc, root, gr[i])  qv == SVal(Eval(sc, Len(QPlan(g)), gr[i]))
         groups == {LDrop(in.vec[y].ls, {"le"}) : y \in {y \in 1..Len(in.vec) : LeParse(LGet(in.vec[y].ls, "le")).k # "op"}}
     IN /\ Len(out.vec) = Cardinality(groups)
        /\ \A y \in 1..Len(out.vec) : \A p \in out.vec[y].ls : p[1] \notin {"__name__", "le"}
        /\ (g.shape # "twonames") => out.why = {}
        /\ qv.k = "nan" => \A y \in 1..Len(out.vec) : out.vec[y].val = NaNV
        /\ (qv.k = "i" /\ qv.v > 1) => \A y \in 1..Len(out.vec) : out.vec[y].val = PInf
        /\ (qv.k = "i" /\ qv.v < 0) => \A y \in 1..Len(out.vec) : out.vec[y].val = NInf

Code(s, S) == CHOOSE i \in 1..Cardinality(S) : SetToSortSeq(S, LAMBDA a, b : TRUE)[i] = s
Hash(x) == x.lay * 7 + x.q * 11 + Code(x.shape, Shapes) * 13 + x.n * 17
           + FoldSet(LAMBDA u, acc : acc + (IF x.pres[u] = "-" THEN 0 ELSE IF x.pres[u] = "f" THEN u + 1 ELSE 5 * (u + 1)), 0, 0..3) * 19
EmitHq == IF Pick(Hash(g) + (Seed % 997) * 131, 0, Mod) = Seed % Mod THEN Emit(ScnOf(g)) ELSE TRUE
=============================================================================
