------------------------------ MODULE Gen_Fault ------------------------------
(***************************************************************************)
(* Scenarios for the fault families (C13, C14, C15, C17): plan shapes that *)
(* cover every operator kind (sharded selectors, range functions, both     *)
(* aggregation kinds, both binary kinds incl. sides of unequal length,     *)
(* functions with scalar arguments, step-invariant, unary, merged selects, *)
(* distributed/remote) x instant / two-batch / four-batch range windows    *)
(* (a producer can then be two batches ahead of its consumer) x core       *)
(* counts.                                                                 *)
(* The faults themselves (error / panic / cancel / block at the k-th       *)
(* storage callback for every k the fault-free run reaches) are enumerated *)
(* by the replayer, which knows k's range only after the fault-free run.   *)
(***************************************************************************)
EXTENDS ScnLib
CONSTANTS Tier, Seed, Mod, TickMs
Q == Tier = "quick"

\* (no two series ever have the same value at a tick: topk results must not depend on a tie-break)
Data == << Series(<< <<"__name__","m">>, <<"a","x">>, <<"b","1">> >>, [i \in 1..40 |-> Smp(i - 1, "f", i)]),
           Series(<< <<"__name__","m">>, <<"a","x">>, <<"b","2">> >>, [i \in 1..40 |-> Smp(i - 1, IF i = 9 THEN "s" ELSE "f", 20 + i)]),
           Series(<< <<"__name__","m">>, <<"a","y">>, <<"b","1">> >>, [i \in 1..20 |-> Smp(2 * i - 1, "f", 150 - i)]),
           Series(<< <<"__name__","m">>, <<"Z","up">>, <<"a","y">>, <<"b","2">> >>, [i \in 1..40 |-> Smp(i - 1, "f", 1000)]),
           Series(<< <<"__name__","n">>, <<"a","x">> >>, [i \in 1..40 |-> Smp(i - 1, "f", 2)]),
           Series(<< <<"__name__","n">>, <<"a","y">> >>, [i \in 1..6 |-> Smp(i - 1, "f", 4)]),
           Series(<< <<"__name__","p">> >>, [i \in 1..40 |-> Smp(i - 1, "f", (i % 2) + 1)]) >>
\* wide: 130 more series of m - more than 64 per shard with one or two shards (work that is split by series count)
Digit(k) == <<"0","1","2","3","4","5","6","7","8","9">>[k + 1]
Name3(k) == Digit(k \div 100) \o Digit((k \div 10) % 10) \o Digit(k % 10)
WideData == Data \o [k \in 1..130 |-> Series(<< <<"__name__","m">>, <<"a","w">>, <<"b", Name3(k)>> >>, [i \in 1..14 |-> Smp(3 * i - 1, "f", 2000 + 50 * k + i)])]
M == <<Sel(<<Metric("m")>>)>>
N2 == <<Sel(<<Metric("n")>>)>>
PS == <<Sel(<<Metric("p")>>), Fn("scalar", <<1>>)>>
LOT == <<RFn("last_over_time", <<Metric("m")>>, 2, 0, "none", 0)>>
Plans == <<
  [p |-> M, dist |-> TRUE],
  [p |-> <<RFn("rate", <<Metric("m")>>, 3, 0, "none", 0)>>, dist |-> TRUE],
  [p |-> Over(M, LAMBDA c : Agg("sum", TRUE, <<"a">>, <<c>>)), dist |-> TRUE],
  [p |-> Over(M, LAMBDA c : Agg("max", TRUE, <<>>, <<c>>)), dist |-> FALSE],
  [p |-> Join(<<Num(2)>>, M, LAMBDA a, b : Agg("topk", TRUE, <<"a">>, <<a, b>>)), dist |-> TRUE],
  [p |-> Join(PS, M, LAMBDA a, b : Agg("quantile", TRUE, <<"a">>, <<a, b>>)), dist |-> FALSE],
  [p |-> Join(M, N2, LAMBDA a, b : BinM("*", a, b, FALSE, "N:1", TRUE, <<"a">>, <<>>)), dist |-> TRUE],
  [p |-> Join(Over(M, LAMBDA c : Agg("sum", TRUE, <<"a">>, <<c>>)), Over(N2, LAMBDA c : Agg("sum", TRUE, <<"a">>, <<c>>)), LAMBDA a, b : Bin("/", a, b)), dist |-> TRUE],
  [p |-> Join(M, <<Num(2)>>, LAMBDA a, b : Bin(">", a, b)), dist |-> FALSE],
  [p |-> Join(M, PS, LAMBDA a, b : Fn("clamp_min", <<a, b>>)), dist |-> FALSE],
  [p |-> Join(<<SelAt(<<Metric("m")>>, 0, "lit", 3)>>, M, LAMBDA a, b : Bin("+", a, b)), dist |-> FALSE],
  [p |-> Over(Over(M, LAMBDA c : NegN(c)), LAMBDA c : Agg("sum", TRUE, <<"b">>, <<c>>)), dist |-> FALSE],
  [p |-> Join(Over(<<Sel(<<Metric("m"), Eq("a", "x")>>)>>, LAMBDA c : Fn("abs", <<c>>)), M, LAMBDA a, b : Bin("-", a, b)), dist |-> FALSE],
  [p |-> Over(<<RFn("last_over_time", <<Metric("m")>>, 2, 1, "none", 0)>>, LAMBDA c : Agg("count", FALSE, <<"b">>, <<c>>)), dist |-> TRUE],
  [p |-> Over(M, LAMBDA c : Fn("timestamp", <<c>>)), dist |-> FALSE],
  [p |-> PS, dist |-> FALSE],
  \* selects that are loaded lazily, by a pull goroutine during Next() rather than by Series()
  [p |-> Join(M, Over(Over(N2, LAMBDA c : Agg("sum", TRUE, <<>>, <<c>>)), LAMBDA c : Fn("scalar", <<c>>)), LAMBDA a, b : Bin("+", a, b)), dist |-> FALSE],
  [p |-> Over(Over(N2, LAMBDA c : Agg("sum", TRUE, <<>>, <<c>>)), LAMBDA c : Fn("scalar", <<c>>)), dist |-> FALSE],
  [p |-> Join(PS, M, LAMBDA a, b : Agg("topk", TRUE, <<>>, <<a, b>>)), dist |-> FALSE],
  \* every name-dropping operator directly over the one range function that keeps the metric name (and the storage's labels)
  [p |-> Join(LOT, <<Num(2)>>, LAMBDA a, b : Bin("*", a, b)), dist |-> FALSE],
  [p |-> Join(LOT, <<Num(3)>>, LAMBDA a, b : BinM(">", a, b, TRUE, "1:1", FALSE, <<>>, <<>>)), dist |-> FALSE],
  [p |-> Over(LOT, LAMBDA c : NegN(c)), dist |-> FALSE],
  [p |-> Over(LOT, LAMBDA c : Fn("abs", <<c>>)), dist |-> FALSE],
  [p |-> Over(LOT, LAMBDA c : Agg("sum", FALSE, <<"b">>, <<c>>)), dist |-> FALSE],
  [p |-> Join(LOT, <<Num(1)>>, LAMBDA a, b : Fn("clamp_min", <<a, b>>)), dist |-> FALSE],
  [p |-> Join(LOT, N2, LAMBDA a, b : BinM("+", a, b, FALSE, "N:1", TRUE, <<"a">>, <<>>)), dist |-> FALSE],
  \* joins that keep the labels of the many side (filtering comparisons) and include a label the many side already has
  [p |-> Join(M, N2, LAMBDA a, b : BinM(">", a, b, FALSE, "N:1", TRUE, <<"a">>, <<"Z">>)), dist |-> FALSE],
  [p |-> Join(N2, M, LAMBDA a, b : BinM("<", a, b, FALSE, "1:N", TRUE, <<"a">>, <<"Z">>)), dist |-> FALSE],
  [p |-> Join(M, N2, LAMBDA a, b : BinM("!=", a, b, FALSE, "N:1", FALSE, <<"b", "Z">>, <<"Z">>)), dist |-> FALSE],
  \* every operator kind below a consumer that asks for batches before it asks for the series (an aggregation without
  \* grouping, scalar()): the operator's own start-up then happens inside Next()
  [p |-> Over(Join(M, PS, LAMBDA a, b : Bin("/", a, b)), LAMBDA c : Agg("sum", TRUE, <<>>, <<c>>)), dist |-> FALSE],
  [p |-> Over(Join(PS, M, LAMBDA a, b : Bin("-", a, b)), LAMBDA c : Agg("max", TRUE, <<>>, <<c>>)), dist |-> FALSE],
  [p |-> Over(Join(M, PS, LAMBDA a, b : Fn("clamp_max", <<a, b>>)), LAMBDA c : Agg("min", TRUE, <<>>, <<c>>)), dist |-> FALSE],
  [p |-> Over(Over(M, LAMBDA c : Fn("abs", <<c>>)), LAMBDA c : Agg("count", TRUE, <<>>, <<c>>)), dist |-> FALSE],
  [p |-> Over(Join(M, N2, LAMBDA a, b : BinM("*", a, b, FALSE, "N:1", TRUE, <<"a">>, <<>>)), LAMBDA c : Agg("avg", TRUE, <<>>, <<c>>)), dist |-> FALSE],
  [p |-> Over(Join(<<Sel(<<Metric("m"), Eq("a", "x"), Eq("b", "1")>>)>>, PS, LAMBDA a, b : Bin("*", a, b)), LAMBDA c : Fn("scalar", <<c>>)), dist |-> FALSE],
  [p |-> Over(Over(LOT, LAMBDA c : NegN(c)), LAMBDA c : Agg("group", TRUE, <<>>, <<c>>)), dist |-> FALSE] >>

VARIABLE g
Init == g \in [p : 1..Len(Plans), win : {"instant", "range", "long"}, procs : IF Q THEN {2, 4} ELSE {2, 4, 8}, dist : {0, 1}, wide : BOOLEAN]
Next == UNCHANGED g
\* the wide data set with the first three plans (selector, range function, aggregation), undistributed, two-batch window
Valid(x) == (x.dist = 0 \/ Plans[x.p].dist) /\ (x.wide => (x.p <= 3 /\ x.dist = 0 /\ x.win = "range"))
ScnOf(x) == Scn("fault", "C15", TickMs, IF x.wide THEN WideData ELSE Data, Plans[x.p].p, 2, IF x.win = "instant" THEN 2 ELSE IF x.win = "range" THEN 13 ELSE 36, IF x.win = "instant" THEN 0 ELSE 1, 2, 0)
            @@ [cfg |-> [procs |-> x.procs, dist |-> x.dist]]
EmitFault == IF Valid(g) /\ (g.p * 5 + g.procs + g.dist * 3 + (IF g.win = "instant" THEN 0 ELSE IF g.win = "range" THEN 1 ELSE 2)) % Mod = Seed % Mod THEN Emit(ScnOf(g)) ELSE TRUE
=============================================================================
